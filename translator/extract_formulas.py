#!/usr/bin/env python3
"""Translator: the straight-line group formulas of /repo -> Lean definitions over the model's field primitives.

Re-run on every check.  For each target function (table TARGETS) the body is located in the Rust source, parsed with
a small grammar (let / const / compound assignment / if-else / early return / tail expression; expressions over
`+ - * == != >> ! & *`, method calls, paths, struct literals, `?`), and *symbolically executed*: every Rust binding
becomes a Lean `let` (mutation = a fresh name), an `if` without `return` becomes a conditional per assigned variable,
an `if` with `return` splits the rest of the computation, a call of `sqrt_ratio_zeta` becomes a `match` on the
routine parameter `sr` (`none` = panic).  Field operators become `fadd/fsub/fmul/fneg/fsq q`, `.abs()` `fabs`,
`.is_negative()` `isNeg`; constants are referenced by the names the constant translator generates
(`fqLit Gen.<module>.<ctx>.<NAME>`), never by value.

Nothing about the expected formulas is known here.  The Lean side (Decaf/Lemmas/Formulas/*.lean) proves each
generated definition equal to the hand-written model for all inputs; a changed formula breaks that proof.

A body that leaves the grammar is reported (`status: untranslated`) and the definition falls back to the hand
model, so the tie for that function is then the correspondence check alone (the evidence says so).

Usage: extract_formulas.py <repo> <out.lean>      (also writes <out>.index.json)
"""
import os, re, sys, json, hashlib

sys.path.insert(0, os.path.dirname(os.path.abspath(__file__)))
from extract_constants import tokenize  # noqa: E402


class Untranslatable(Exception):
    pass


# methods whose bodies are translation targets themselves or primitives by contract: never inlined as helpers
TRANSLATED_METHODS = {'double', 'vartime_compress_to_field', 'vartime_compress', 'vartime_decompress', 'elligator_map', 'neg', 'eq', 'is_identity',
                      'square', 'abs', 'is_negative', 'is_nonnegative', 'clone', 'into', 'add', 'sub', 'mul', 'sqrt_ratio_zeta',
                      'non_arkworks_sqrt_ratio_zeta', 'pow', 'inverse', 'to_bytes_le', 'from_bytes_checked', 'hash_to_curve', 'encode_to_curve'}


# ---------------------------------------------------------------------------------------------- parsing

class Parser:
    def __init__(self, toks):
        self.t = toks
        self.i = 0

    def peek(self, k=0):
        return self.t[self.i + k] if self.i + k < len(self.t) else ('eof', '')

    def at(self, v, k=0):
        return self.peek(k)[1] == v and self.peek(k)[0] != 'str'

    def eat(self, v=None):
        tok = self.peek()
        if v is not None and tok[1] != v:
            raise Untranslatable('expected %r, found %r' % (v, tok[1]))
        self.i += 1
        return tok

    # ---- blocks and statements
    def block(self):
        self.eat('{')
        stmts = []
        while not self.at('}'):
            stmts.append(self.stmt())
        self.eat('}')
        return stmts

    def pattern(self):
        if self.at('('):
            self.eat('(')
            ps = []
            while not self.at(')'):
                ps.append(self.pattern())
                if self.at(','):
                    self.eat(',')
            self.eat(')')
            return ('ptuple', ps)
        if self.at('mut'):
            self.eat()
        if self.at('&'):
            self.eat()
        k, v = self.eat()
        if k != 'id':
            raise Untranslatable('pattern %r' % v)
        if self.at('{'):
            self.eat('{')
            fs = []
            while not self.at('}'):
                if self.at('..') or (self.at('.') and self.at('.', 1)):
                    self.eat()
                    if self.at('.'):
                        self.eat()
                    continue
                f = self.eat()[1]
                n = f
                if self.at(':'):
                    self.eat(':')
                    if self.at('mut'):
                        self.eat()
                    n = self.eat()[1]
                fs.append((f, n))
                if self.at(','):
                    self.eat(',')
            self.eat('}')
            return ('pstruct', v, fs)
        return ('pname', v)

    def skip_type(self):
        depth = 0
        while True:
            v = self.peek()[1]
            if depth == 0 and v in ('=', ';'):
                return
            if v in ('<', '(', '['):
                depth += 1
            if v in ('>', ')', ']'):
                depth -= 1
            if v == '>>':
                depth -= 2
            self.eat()

    def stmt(self):
        if self.at('#'):                       # attribute on a statement: #[cfg(...)], #[allow(...)]
            self.eat('#')
            self.eat('[')
            depth = 1
            txt = []
            while depth:
                v = self.eat()[1]
                depth += v == '['
                depth -= v == ']'
                txt.append(v)
            if 'cfg' in txt:
                return ('cfgstmt', ' '.join(txt), self.stmt())
            return self.stmt()
        if self.at('let'):
            self.eat()
            pat = self.pattern()
            if self.at(':'):
                self.eat(':')
                self.skip_type()
            e = None
            if self.at('='):
                self.eat('=')
                e = self.expr()
            self.eat(';')
            return ('let', pat, e)
        if self.at('const'):
            self.eat()
            name = self.eat()[1]
            self.eat(':')
            self.skip_type()
            self.eat('=')
            e = self.expr()
            self.eat(';')
            return ('let', ('pname', name), e)
        if self.at('if'):
            return self.if_stmt()
        if self.at('return'):
            self.eat()
            e = self.expr()
            if self.at(';'):
                self.eat(';')
            return ('return', e)
        if self.peek()[0] == 'id' and self.at('!', 1) and self.peek(2)[1] in ('(', '[', '{') and self.peek()[1] in (
                'debug_assert', 'debug_assert_eq', 'debug_assert_ne'):
            name = self.eat()[1]
            self.eat('!')
            opener = self.eat()[1]
            closer = {'(': ')', '[': ']', '{': '}'}[opener]
            depth = 1
            while depth:
                v = self.eat()[1]
                depth += v == opener
                depth -= v == closer
            if self.at(';'):
                self.eat(';')
            return ('macro', name)
        # field assignment  self.x = e;
        if self.peek()[0] == 'id' and self.at('.', 1) and self.peek(2)[0] == 'id' and self.at('=', 3):
            name = self.eat()[1]
            self.eat('.')
            fld = self.eat()[1]
            self.eat('=')
            e = self.expr()
            if self.at(';'):
                self.eat(';')
            return ('assignf', name, fld, e)
        # assignment?
        if self.peek()[0] == 'id' and (self.at('=', 1) or (self.peek(1)[1] in '+-*' and self.at('=', 2))):
            name = self.eat()[1]
            op = ''
            if not self.at('='):
                op = self.eat()[1]
            self.eat('=')
            e = self.expr()
            if self.at(';'):
                self.eat(';')
            return ('assign', name, op, e)
        e = self.expr()
        semi = False
        if self.at(';'):
            self.eat(';')
            semi = True
        return ('expr', e, semi)

    def if_stmt(self):
        self.eat('if')
        c = self.expr(nostruct=True)
        th = self.block()
        el = None
        if self.at('else'):
            self.eat()
            if self.at('if'):
                el = [self.if_stmt()]
            else:
                el = self.block()
        return ('if', c, th, el)

    # ---- expressions (precedence climbing)
    PREC = {'||': 1, '&&': 2, '==': 3, '!=': 3, '&': 4, '>>': 5, '<<': 5, '+': 6, '-': 6, '*': 7, '/': 7}

    def expr(self, minp=0, nostruct=False):
        lhs = self.unary(nostruct)
        while True:
            op = self.peek()[1]
            if self.peek()[0] != 'op' or op not in self.PREC:
                break
            if op in ('+', '-', '*', '&') and self.at('=', 1):
                break
            p = self.PREC[op]
            if p <= minp:
                break
            self.eat()
            rhs = self.expr(p, nostruct)
            lhs = ('bin', op, lhs, rhs)
        return lhs

    def unary(self, nostruct):
        if self.peek()[0] == 'op' and self.peek()[1] in ('-', '!', '&', '*'):
            op = self.eat()[1]
            if op == '&' and self.at('mut'):
                self.eat()
            e = self.unary(nostruct)
            return ('un', op, e)
        return self.postfix(self.primary(nostruct), nostruct)

    def args(self):
        self.eat('(')
        a = []
        while not self.at(')'):
            a.append(self.expr())
            if self.at(','):
                self.eat(',')
        self.eat(')')
        return a

    def primary(self, nostruct):
        k, v = self.peek()
        if k == 'num':
            self.eat()
            m = re.match(r'(0[xX][0-9a-fA-F_]+|0[bB][01_]+|0[oO][0-7_]+|[0-9][0-9_]*)', v)
            return ('num', int(m.group(1).replace('_', ''), 0))
        if k == 'str':
            self.eat()
            return ('str', v)
        if v == '(':
            self.eat('(')
            e = self.expr()
            if self.at(','):
                es = [e]
                while self.at(','):
                    self.eat(',')
                    if self.at(')'):
                        break
                    es.append(self.expr())
                self.eat(')')
                return ('tuple', es)
            self.eat(')')
            return e
        if v == 'if':
            self.eat('if')
            c = self.expr(nostruct=True)
            th = self.block()
            self.eat('else')
            if self.at('if'):
                el = [('expr', self.primary(nostruct), False)]
            else:
                el = self.block()
            return ('ifexpr', c, th, el)
        if v == 'match':
            self.eat('match')
            scrut = self.expr(nostruct=True)
            self.eat('{')
            arms = {}
            while not self.at('}'):
                k2, pv = self.eat()
                if pv not in ('true', 'false', '_'):
                    raise Untranslatable('match arm pattern %r' % pv)
                self.eat('=>')
                arms[pv] = [('expr', self.expr(), False)] if not self.at('{') else self.block()
                if self.at(','):
                    self.eat(',')
            self.eat('}')
            th = arms.get('true', arms.get('_'))
            el = arms.get('false', arms.get('_'))
            if th is None or el is None:
                raise Untranslatable('non-exhaustive bool match')
            return ('ifexpr', scrut, th, el)
        if v == '{':
            return ('block', self.block())
        if v == '||':
            self.eat('||')
            return ('closure', self.expr())
        if v == '|':
            self.eat('|')
            while not self.at('|'):
                self.eat()
            self.eat('|')
            return ('closure', self.expr())
        if v == '..' or (v == '.' and self.at('.', 1)):
            self.eat()
            if v == '.':
                self.eat()
            return ('fullrange',)
        if k == 'id':
            self.eat()
            path = [v]
            while self.at('::'):
                self.eat('::')
                if self.at('<'):                 # turbofish: `Boolean::<Fq>::TRUE` — the type arguments carry no value
                    depth = 0
                    while True:
                        v2 = self.eat()[1]
                        depth += v2 == '<'
                        depth -= v2 == '>'
                        if v2 == '>>':
                            depth -= 2
                        if depth <= 0:
                            break
                    continue
                path.append(self.eat()[1])
            p = '::'.join(path)
            if self.at('!') and self.peek(1)[1] in ('(', '[') and self.peek(1)[0] == 'op':
                self.eat('!')
                opener = self.eat()[1]
                closer = {'(': ')', '[': ']'}[opener]
                depth = 1
                while depth:
                    v2 = self.eat()
                    if v2[0] != 'str':
                        depth += v2[1] == opener
                        depth -= v2[1] == closer
                return ('macrocall', p)
            if self.at('{') and not nostruct and path[-1][:1].isupper() and self.peek(1)[0] == 'id' and (self.at(':', 2) or self.at(',', 2)):
                self.eat('{')
                fs = []
                while not self.at('}'):
                    f = self.eat()[1]
                    if self.at(':'):
                        self.eat(':')
                        fs.append((f, self.expr()))
                    else:
                        fs.append((f, ('path', f)))        # field init shorthand
                    if self.at(','):
                        self.eat(',')
                self.eat('}')
                return ('struct', p, fs)
            return ('path', p)
        raise Untranslatable('expression starting with %r' % v)

    def postfix(self, e, nostruct):
        while True:
            if self.at('('):
                e = ('call', e, self.args())
            elif self.at('.'):
                self.eat('.')
                k, v = self.eat()
                if k == 'num':
                    e = ('field', e, v)
                elif self.at('('):
                    e = ('method', e, v, self.args())
                else:
                    e = ('field', e, v)
            elif self.at('['):
                self.eat('[')
                ix = self.expr()
                self.eat(']')
                e = ('index', e, ix)
            elif self.at('?'):
                self.eat('?')
                e = ('try', e)
            elif self.at('as') and self.peek()[0] == 'id':
                self.eat('as')
                self.eat()                      # the target type: integer width changes are the identity on the modelled value
            else:
                return e


def find_fn(src, impl_re, fn_name):
    """the token list of the body of `fn fn_name` inside the first `impl` whose header matches impl_re"""
    for m in re.finditer(r'\bimpl\b[^{;]*\{', src):
        hdr = m.group()
        if not re.search(impl_re, hdr):
            continue
        depth, j = 1, m.end()
        while depth and j < len(src):
            depth += src[j] == '{'
            depth -= src[j] == '}'
            j += 1
        body = src[m.end():j - 1]
        f = None
        for cand in re.finditer(r'\bfn\s+%s\b\s*' % re.escape(fn_name), body):
            j2 = cand.end()
            if j2 < len(body) and body[j2] == '<':          # generic parameters, possibly nested
                depth2 = 0
                while j2 < len(body):
                    depth2 += body[j2] == '<'
                    depth2 -= body[j2] == '>'
                    j2 += 1
                    if depth2 == 0:
                        break
                while j2 < len(body) and body[j2].isspace():
                    j2 += 1
            if j2 < len(body) and body[j2] == '(':
                f = cand
                break
        if not f:
            continue
        depthp, kk = 0, body.index('(', f.end() - 0) if '(' in body[f.end():] or True else 0
        kk = body.index('(', f.start())
        while True:                                          # skip the parameter list (it may contain `{` in closures' types? no; but `(`)
            depthp += body[kk] == '('
            depthp -= body[kk] == ')'
            kk += 1
            if depthp == 0:
                break
        k = body.index('{', kk)
        # the signature may contain `{`? not in this crate
        depth, e = 1, k + 1
        while depth:
            depth += body[e] == '{'
            depth -= body[e] == '}'
            e += 1
        text = body[k:e]
        start = src[:m.end() + f.start()].count('\n') + 1
        return text, start, start + body[f.start():e].count('\n')
    raise Untranslatable('fn %s not found in an impl matching /%s/' % (fn_name, impl_re))


# ---------------------------------------------------------------------------------------------- symbolic execution

class Sym:
    """symbolic executor producing Lean text; values are (lean, type)"""

    def __init__(self, cfg, consts):
        self.cfg = cfg
        self.consts = consts           # NAME -> lean ident, for this source file
        self.mode = cfg['mode']        # pure | option | except
        self.n = {}
        self.depth = 0
        self.repo = None
        self.ckinds = {}

    def method_helper(self, name, nargs):
        """a helper *method* `fn name(self | &self, a: T, …) { lets; tail }` defined once under src/: (params incl. self, body)"""
        if self.repo is None:
            return None
        found = []
        for root, _, files in os.walk(os.path.join(self.repo, 'src')):
            for fn in files:
                if not fn.endswith('.rs') or '/fiat' in root:
                    continue
                src = open(os.path.join(root, fn)).read()
                for m in re.finditer(r'\bfn\s+%s\s*\(([^)]*)\)[^{;]*\{' % re.escape(name), src):
                    params = [x.strip() for x in m.group(1).split(',') if x.strip()]
                    if not params or not re.match(r'(&\s*)?(mut\s+)?self\b', params[0]) or len(params) - 1 != nargs:
                        continue
                    names = ['self']
                    for x in params[1:]:
                        mm = re.match(r'(?:mut\s+)?([A-Za-z_]\w*)\s*:', x)
                        if not mm:
                            names = None
                            break
                        names.append(mm.group(1))
                    if names is None:
                        continue
                    depth, e = 1, m.end()
                    while depth and e < len(src):
                        depth += src[e] == '{'
                        depth -= src[e] == '}'
                        e += 1
                    found.append((names, src[m.end() - 1:e]))
        if len(found) != 1:
            return None
        try:
            return found[0][0], Parser(tokenize(found[0][1])).block()
        except Untranslatable:
            return None

    def helper(self, name, nargs):
        """a free helper function `fn name(a: &Fq, …) -> … { lets; tail }` defined once under src/ (not a method): (params, body)"""
        if self.repo is None or name in ('new', 'from', 'Ok', 'Err', 'Some'):
            return None
        found = []
        for root, _, files in os.walk(os.path.join(self.repo, 'src')):
            for fn in files:
                if not fn.endswith('.rs') or '/fiat' in root:
                    continue
                src = open(os.path.join(root, fn)).read()
                for m in re.finditer(r'\bfn\s+%s\s*\(([^)]*)\)[^{;]*\{' % re.escape(name), src):
                    params = [x.strip() for x in m.group(1).split(',') if x.strip()]
                    if any(re.match(r'(&\s*)?(mut\s+)?self\b', x) for x in params) or len(params) != nargs:
                        continue
                    names = []
                    for x in params:
                        mm = re.match(r'(?:mut\s+)?([A-Za-z_]\w*)\s*:', x)
                        if not mm:
                            names = None
                            break
                        names.append(mm.group(1))
                    if names is None:
                        continue
                    depth, e = 1, m.end()
                    while depth and e < len(src):
                        depth += src[e] == '{'
                        depth -= src[e] == '}'
                        e += 1
                    found.append((names, src[m.end() - 1:e]))
        if len(found) != 1:
            return None
        try:
            return found[0][0], Parser(tokenize(found[0][1])).block()
        except Untranslatable:
            return None

    def fresh(self, base):
        base = re.sub(r'[^A-Za-z0-9_]', '_', base).lstrip('_') or 'v'
        self.n[base] = self.n.get(base, 0) + 1
        return '%s_%d' % (base, self.n[base])

    # ---- constants and paths
    def const(self, name):
        if name in self.consts:
            c = self.consts[name]
            if isinstance(c, tuple):             # a `Lazy` static whose initialiser is an expression: inline it
                return self.ev(c[1], {})
            if self.ckinds.get(name) == 'int':
                return ('(litNat %s)' % c, 'int')
            return ('(fqLit %s)' % c, 'fq')
        raise Untranslatable('unknown name %s' % name)

    def path(self, p, env):
        if p in env:
            v = env[p]
            if v is None:
                raise Untranslatable('use of uninitialised %s' % p)
            return v
        last = p.split('::')[-1]
        if p in ('true', 'false'):
            return (p, 'bool')
        if p in ('Fq::ONE', 'Fq::one'):
            return ('1', 'fq')
        if p in ('Fq::ZERO', 'Fq::zero'):
            return ('0', 'fq')
        if p.startswith('EncodingError::'):
            return ({'InvalidEncoding': '.encoding', 'InvalidSliceLength': '.length'}.get(last) or self.bad('error ' + p), 'errk')
        if '::' in p:
            key = p
            if key in self.consts:
                return ('(fqLit %s)' % self.consts[key], 'fq')
            raise Untranslatable('unknown path %s' % p)
        return self.const(p)

    def bad(self, what):
        raise Untranslatable(what)

    def local_int_const(self, name):
        """`const NAME: u32|u64 = <literal>;` in the file being translated"""
        try:
            src = open(os.path.join(self.repo, self.cfg['file'])).read()
        except (OSError, TypeError):
            return None
        m = re.search(r'\bconst\s+%s\s*:\s*u(?:8|16|32|64)\s*=\s*([0-9][0-9_]*)\s*(?:u(?:8|16|32|64))?\s*;' % re.escape(name), src)
        return int(m.group(1).replace('_', '')) if m else None

    def extarg(self, comps):
        if self.cfg['ext_add'].startswith('Gen.Formulas.'):
            return ' '.join(comps)               # the translated formula takes the eight coordinates
        return '(⟨%s, %s, %s, %s⟩ : Ext)' % tuple(comps)

    # ---- expressions
    def ev(self, e, env):
        k = e[0]
        if k == 'num':
            return (str(e[1]), 'int')
        if k == 'path':
            return self.path(e[1], env)
        if k == 'un':
            op, (a, t) = e[1], self.ev(e[2], env)
            if op in ('&', '*'):
                return (a, t)
            if op == '-' and t == 'fq':
                return ('(fneg q %s)' % a, 'fq')
            if op == '!' and t == 'bool':
                return ('(!%s)' % a, 'bool')
            raise Untranslatable('unary %s on %s' % (op, t))
        if k == 'bin':
            op = e[1]
            a, ta = self.ev(e[2], env)
            b, tb = self.ev(e[3], env)
            if ta == 'fq' and tb == 'fq' and op in '+-*':
                return ('(%s q %s %s)' % ({'+': 'fadd', '-': 'fsub', '*': 'fmul'}[op], a, b), 'fq')
            if op == '+' and ta == tb == 'ext' and self.cfg.get('ext_add'):
                E = '(%s %s %s)' % (self.cfg['ext_add'], self.extarg(a), self.extarg(b))
                return (tuple('%s.%s' % (E, c) for c in 'XYZT'), 'ext')
            if op in ('==', '!=') and (ta == tb or 'int' in (ta, tb)) and ta in ('fq', 'bool', 'u8', 'int'):
                return ('(%s %s %s)' % (a, op, b), 'bool')
            if op in ('&&', '||') and ta == tb == 'bool':
                return ('(%s %s %s)' % (a, op, b), 'bool')
            if op == '>>' and ta == 'u8' and tb == 'int':
                return ('(%s / 2 ^ %s)' % (a, b), 'u8')
            raise Untranslatable('binary %s on %s, %s' % (op, ta, tb))
        if k == 'tuple':
            return ([self.ev(x, env) for x in e[1]], 'tuple')
        if k == 'block':
            return self.ev_block(e[1], env)
        if k == 'ifexpr':
            c, tc = self.ev(e[1], env)
            if tc != 'bool':
                raise Untranslatable('condition of type %s' % tc)
            return self.ite(c, self.ev_block(e[2], env), self.ev_block(e[3], env))
        if k == 'field':
            a, t = self.ev(e[1], env)
            if t == 'ext' and e[2] in ('x', 'y', 'z', 't'):
                return (a['xyzt'.index(e[2])], 'fq')
            if t == 'ext' and e[2] == 'inner':
                return (a, 'ext')
            if t == 'enc' and e[2] == '0':
                return (a, 'bytes')
            raise Untranslatable('field .%s of %s' % (e[2], t))
        if k == 'index':
            a, t = self.ev(e[1], env)
            if t == 'bytes' and e[2][0] == 'num':
                return ('(%s.getD %d 0)' % (a, e[2][1]), 'u8')
            if t == 'bytes' and e[2] == ('fullrange',):
                return (a, 'bytes')
            raise Untranslatable('index of %s' % t)
        if k == 'method':
            name, args = e[2], e[3]
            a, t = self.ev(e[1], env)
            if t == 'fq' and not args:
                if name == 'square':
                    return ('(fsq q %s)' % a, 'fq')
                if name == 'double':
                    return ('(fadd q %s %s)' % (a, a), 'fq')
                if name == 'abs':
                    return ('(fabs %s)' % a, 'fq')
                if name == 'is_negative':
                    return ('(isNeg %s)' % a, 'bool')
                if name == 'is_nonnegative':
                    return ('(!isNeg %s)' % a, 'bool')
                if name == 'is_zero':
                    return ('(%s == 0)' % a, 'bool')
                if name in ('clone', 'into'):
                    return (a, t)
            if t == 'resfq' and name == 'map_err' and len(args) == 1 and args[0][0] == 'closure':
                err, te = self.ev(args[0][1], env)
                if te == 'errk':
                    return ((a[0], err), 'resfq')
            if t in ('fq', 'ext') and name not in TRANSLATED_METHODS:
                hp = self.method_helper(name, len(args))
                if hp is not None and self.depth <= 6:
                    self.depth += 1
                    try:
                        return self.ev_block(hp[1], dict(zip(hp[0], [(a, t)] + [self.ev(x, env) for x in args])))
                    finally:
                        self.depth -= 1
            raise Untranslatable('method .%s on %s' % (name, t))
        if k == 'call':
            if e[1][0] != 'path':
                raise Untranslatable('call of a non-path')
            f = e[1][1]
            args = e[2]
            if f in ('Fq::zero', 'Fq::one') and not args:
                return ('0' if f == 'Fq::zero' else '1', 'fq')
            if f in ('Fq::from', 'Fq::from_le_limbs') and len(args) == 1 and args[0][0] == 'num':
                return (str(args[0][1]), 'fq')
            if f == 'Fq::from' and len(args) == 1 and args[0][0] == 'path':
                n = self.local_int_const(args[0][1])
                if n is not None:
                    return (str(n), 'fq')
            if f in ('Fq::sqrt_ratio_zeta', 'Fq::non_arkworks_sqrt_ratio_zeta') and len(args) == 2:
                (a, ta), (b, tb) = self.ev(args[0], env), self.ev(args[1], env)
                if ta == tb == 'fq':
                    return ((a, b), 'sqrtcall')
            if f in ('Self::new', 'Element::new') and len(args) == 4 and self.cfg['new_order']:
                vs = [self.ev(x, env) for x in args]
                if all(t == 'fq' for _, t in vs):
                    o = self.cfg['new_order']
                    return (tuple(vs[o.index(c)][0] for c in 'xyzt'), 'ext')
            if f == 'EdwardsProjective::new' and len(args) == 4:
                vs = [self.ev(x, env) for x in args]
                if all(t == 'fq' for _, t in vs):
                    o = 'xytz'                      # ark-ec twisted Edwards Projective::new(x, y, t, z)
                    return (tuple(vs[o.index(c)][0] for c in 'xyzt'), 'ext')
            if f in ('Fq::from_bytes_checked', 'Fq::deserialize_compressed') and len(args) == 1:
                a, t = self.ev(args[0], env)
                if t == 'bytes':
                    return ((a, '.encoding' if f == 'Fq::from_bytes_checked' else None), 'resfq')
            if f.split('::')[-1] in self.cfg.get('calls', {}) and f.split('::')[0] in ('Element', 'Self'):
                tgt, kinds = self.cfg['calls'][f.split('::')[-1]]
                vs = [self.ev(x, env) for x in args]
                if [t for _, t in vs] == kinds:
                    return ('Gen.Formulas.%s sr %s' % (tgt, ' '.join(v for v, _ in vs)), 'callopt')
            if f == 'Ok' and len(args) == 1:
                a, t = self.ev(args[0], env)
                return (a, t)
            if f == 'Err' and len(args) == 1:
                a, t = self.ev(args[0], env)
                if t == 'errk':
                    return (a, 'err')
            h = self.helper(f.split('::')[-1], len(args))
            if h is not None:
                params, body = h
                if self.depth > 6:
                    raise Untranslatable('helper recursion')
                self.depth += 1
                try:
                    return self.ev_block(body, {p_: self.ev(a, env) for p_, a in zip(params, args)})
                finally:
                    self.depth -= 1
            raise Untranslatable('call of %s' % f)
        if k == 'struct':
            if e[1] == 'Element' and len(e[2]) == 1 and e[2][0][0] == 'inner':
                a, t = self.ev(e[2][0][1], env)
                if t == 'ext':
                    return (a, 'ext')
            if e[1] in ('Element', 'Self') and sorted(f for f, _ in e[2]) == ['t', 'x', 'y', 'z'] and self.cfg.get('new_order') == 'xyzt':
                vs = {f: self.ev(x, env) for f, x in e[2]}
                if all(t == 'fq' for _, t in vs.values()):
                    return (tuple(vs[c][0] for c in 'xyzt'), 'ext')
            raise Untranslatable('struct literal %s' % e[1])
        if k == 'try':
            a, t = self.ev(e[1], env)
            if t == 'resfq':
                return (a, 'tryfq')
            raise Untranslatable('? on %s' % t)
        raise Untranslatable('expression kind %s' % k)

    def ite(self, c, a, b):
        (va, ta), (vb, tb) = a, b
        if ta != tb:
            raise Untranslatable('if-expression with branches of types %s, %s' % (ta, tb))
        if ta in ('fq', 'bool', 'u8'):
            return ('(if %s then %s else %s)' % (c, va, vb), ta)
        if ta == 'tuple' and len(va) == len(vb):
            return ([self.ite(c, x, y) for x, y in zip(va, vb)], 'tuple')
        if ta == 'ext':
            return (tuple('(if %s then %s else %s)' % (c, x, y) for x, y in zip(va, vb)), 'ext')
        raise Untranslatable('if-expression of type %s' % ta)

    def ev_block(self, stmts, env):
        """a block in expression position: lets (by substitution) and a tail expression, no control flow"""
        env = dict(env)
        for i, st in enumerate(stmts):
            if st[0] == 'macro':
                continue
            if st[0] == 'let' and st[2] is not None:
                self.bind_pat(st[1], self.ev(st[2], env), env)
                continue
            if st[0] == 'expr' and not st[2] and i == len(stmts) - 1:
                return self.ev(st[1], env)
            raise Untranslatable('statement %s in an expression block' % st[0])
        raise Untranslatable('expression block without a value')

    def bind_pat(self, pat, val, env):
        v, t = val
        if pat[0] == 'pname':
            env[pat[1]] = val
        elif pat[0] == 'ptuple' and t == 'tuple' and len(pat[1]) == len(v):
            for p_, x in zip(pat[1], v):
                self.bind_pat(p_, x, env)
        elif pat[0] == 'pstruct' and t == 'ext':
            for f, n in pat[2]:
                if f not in ('x', 'y', 'z', 't'):
                    raise Untranslatable('struct pattern field %s' % f)
                env[n] = (v['xyzt'.index(f)], 'fq')
        else:
            raise Untranslatable('pattern %s := %s' % (pat[0], t))

    def run_cfg(self, s, rest, env, ind):
        raise Untranslatable('cfg-conditional statement')

    def flush(self, ind):
        return ''

    def effect(self, e, env):
        raise Untranslatable('expression statement')

    # ---- results
    def ret(self, v, t):
        if t == 'err':
            if self.mode != 'except':
                raise Untranslatable('Err in a non-Result function')
            return '.error %s' % v
        if t == 'ext':
            val = '(⟨%s, %s, %s, %s⟩ : Ext)' % v
        elif t in ('fq', 'bool'):
            val = v
        else:
            raise Untranslatable('result of type %s' % t)
        if t != self.cfg['ret']:
            raise Untranslatable('result type %s, expected %s' % (t, self.cfg['ret']))
        return {'pure': '%s', 'option': 'some %s', 'except': '.ok %s'}[self.mode] % val

    def panic(self):
        if self.mode == 'pure':
            raise Untranslatable('fallible call in a pure function')
        return {'option': 'none', 'except': '.error .panic'}[self.mode]

    # ---- statements
    def assigned(self, stmts):
        out = []
        for s in stmts:
            if s[0] == 'assign':
                if s[1] not in out:
                    out.append(s[1])
            elif s[0] == 'macro':
                pass
            elif s[0] == 'expr' and s[1][0] == 'path' and False:
                pass
            else:
                return None
        return out

    def run_assigns(self, stmts, env):
        env = dict(env)
        for s in stmts:
            if s[0] == 'macro':
                continue
            _, name, op, e = s
            if name not in env:
                raise Untranslatable('assignment to unknown %s' % name)
            if op:
                e = ('bin', op, ('path', name), e)
            env[name] = self.ev(e, env)
        return env

    def diverges(self, stmts):
        return bool(stmts) and (stmts[-1][0] == 'return' or (stmts[-1][0] == 'if' and stmts[-1][3] is not None
                                                              and self.diverges(stmts[-1][2]) and self.diverges(stmts[-1][3])))

    def bind(self, name, val, env, ind):
        """emit `let`, return text prefix"""
        lean, t = val
        if t in ('fq', 'bool', 'u8'):
            n = self.fresh(name)
            env[name] = (n, t)
            return '%slet %s := %s\n' % (ind, n, lean)
        env[name] = val
        return ''

    def run(self, stmts, env, ind='  ', tail=True):
        """Lean text for executing stmts (ending in a result) under env"""
        if not stmts:
            raise Untranslatable('block without a result')
        s, rest = stmts[0], stmts[1:]
        k = s[0]
        if k == 'macro':
            return self.run(rest, env, ind)
        if k == 'cfgstmt':
            return self.run_cfg(s, rest, env, ind)
        if k == 'expr' and s[2] and rest:
            self.effect(s[1], env)
            return self.run(rest, env, ind)
        if k == 'let':
            pat, e = s[1], s[2]
            if e is None:
                if pat[0] != 'pname':
                    raise Untranslatable('deferred pattern')
                env = dict(env)
                env[pat[1]] = None
                return self.run(rest, env, ind)
            v, t = self.ev(e, env)
            env = dict(env)
            if t == 'sqrtcall':
                if pat[0] != 'ptuple' or len(pat[1]) != 2 or any(p[0] != 'pname' for p in pat[1]):
                    raise Untranslatable('sqrt result pattern')
                nb, nv = self.fresh(pat[1][0][1]), self.fresh(pat[1][1][1])
                env[pat[1][0][1]] = (nb, 'bool')
                env[pat[1][1][1]] = (nv, 'fq')
                return ('%smatch sr %s %s with\n%s| none => %s\n%s| some (%s, %s) =>\n' % (ind, v[0], v[1], ind, self.panic(), ind, nb, nv)
                        + self.run(rest, env, ind + '  '))
            if t == 'callopt':
                if pat[0] != 'pname':
                    raise Untranslatable('pattern for a translated call')
                n = self.fresh(pat[1])
                env[pat[1]] = (tuple('%s.%s' % (n, c) for c in 'XYZT'), 'ext')
                return ('%smatch %s with\n%s| none => %s\n%s| some %s =>\n' % (ind, v, ind, self.panic(), ind, n)
                        + self.run(rest, env, ind + '  '))
            if t == 'tryfq':
                if pat[0] != 'pname' or self.mode != 'except' or v[1] is None:
                    raise Untranslatable('? in this position')
                n = self.fresh(pat[1])
                env[pat[1]] = (n, 'fq')
                return ('%smatch fqFromBytesChecked %s with\n%s| none => .error %s\n%s| some %s =>\n' % (ind, v[0], ind, v[1], ind, n)
                        + self.run(rest, env, ind + '  '))
            if pat[0] == 'pname':
                return self.bind(pat[1], (v, t), env, ind) + self.run(rest, env, ind)
            if pat[0] == 'ptuple' and t == 'tuple' and len(pat[1]) == len(v) and all(p_[0] == 'pname' for p_ in pat[1]):
                pre = ''
                for p_, x in zip(pat[1], v):
                    pre += self.bind(p_[1], x, env, ind)
                return pre + self.run(rest, env, ind)
            self.bind_pat(pat, (v, t), env)
            return self.run(rest, env, ind)
        if k == 'assignf':
            _, name, fld, e = s
            v, t = self.ev(e, env)
            cur = env.get(name)
            if not cur or cur[1] != 'ext' or fld not in ('x', 'y', 'z', 't') or t != 'fq':
                raise Untranslatable('field assignment %s.%s' % (name, fld))
            env = dict(env)
            n = self.fresh(fld)
            comps = list(cur[0])
            comps['xyzt'.index(fld)] = n
            env[name] = (tuple(comps), 'ext')
            return '%slet %s := %s\n' % (ind, n, v) + self.run(rest, env, ind)
        if k == 'assign':
            env = self.run_assigns([s], env)
            name = s[1]
            pre = self.bind(name, env[name], env, ind)
            return pre + self.run(rest, env, ind)
        if k == 'if':
            c, tc = self.ev(s[1], env)
            if tc != 'bool':
                raise Untranslatable('condition of type %s' % tc)
            th, el = s[2], s[3]
            if self.diverges(th) and el is None:
                return ('%sif %s then\n' % (ind, c) + self.run(th, env, ind + '  ') + '\n%selse\n' % ind + self.run(rest, env, ind + '  '))
            if el is not None and self.diverges(th) and self.diverges(el):
                if rest:
                    raise Untranslatable('code after a diverging if/else')
                return ('%sif %s then\n' % (ind, c) + self.run(th, env, ind + '  ') + '\n%selse\n' % ind + self.run(el, env, ind + '  '))
            if el is not None and not rest and th and el and th[-1][0] == 'expr' and not th[-1][2] and el[-1][0] == 'expr' and not el[-1][2]:
                return ('%sif %s then\n' % (ind, c) + self.run(th, env, ind + '  ') + '\n%selse\n' % ind + self.run(el, env, ind + '  '))
            a1 = self.assigned(th)
            a2 = self.assigned(el or [])
            if a1 is None or a2 is None:
                raise Untranslatable('if-block with statements other than assignments')
            e1 = self.run_assigns(th, env)
            e2 = self.run_assigns(el or [], env)
            env = dict(env)
            pre = ''
            for name in a1 + [x for x in a2 if x not in a1]:
                (v1, t1), (v2, t2) = (e1[name] or (None, None)), (e2[name] or (None, None))
                if v1 is None or v2 is None or t1 != t2:
                    raise Untranslatable('%s not assigned on both paths' % name)
                pre += self.bind(name, ('if %s then %s else %s' % (c, v1, v2), t1), env, ind)
            return pre + self.run(rest, env, ind)
        if k == 'return':
            v, t = self.ev(s[1], env)
            return self.flush(ind) + ind + self.ret(v, t)
        if k == 'expr':
            if rest or s[2]:
                raise Untranslatable('expression statement')
            v, t = self.ev(s[1], env)
            if t == 'callopt' and self.mode == 'option' and self.cfg['ret'] == 'ext':
                return ind + v
            return self.flush(ind) + ind + self.ret(v, t)
        raise Untranslatable('statement %s' % k)


class GSym(Sym):
    """R1CS gadget bodies (src/ark_curve/r1cs/{inner,fqvar_ext}.rs): an `FqVar` / `Boolean` is its value; the constraints
    the body emits (`enforce_equal`, `conditional_enforce_equal`, `inverse`, `isqrt`) accumulate, in program order, in
    `self.sat`; the result is `(sat_1 && … && sat_n, outputs…)`.  `ark-r1cs-std` primitives enter by the same
    contract as in Model/R1cs.lean: `inverse` is satisfiable iff the operand is non-zero, `is_eq`/`select`/`and`/`or`/`not`
    compute their functions, `to_bits_le` is the canonical decomposition (so `is_negative` is the parity).  The prover's
    choice of witness values is the parameter `h` (the hook `verif::hint`)."""

    def __init__(self, cfg, consts):
        super().__init__(cfg, consts)
        self.sat = []

    def need(self, cond):
        self.sat.append(cond)

    def ev(self, e, env):
        k = e[0]
        if k == 'try':
            return self.ev(e[1], env)
        if k == 'closure':
            return self.ev(e[1], env)
        if k == 'method':
            name, args = e[2], e[3]
            a, t = self.ev(e[1], env)
            av = [self.ev(x, env) for x in args]
            ts = [x[1] for x in av]
            if name in ('clone', 'borrow'):
                return (a, t)
            if name == 'cs':
                return ('cs', 'cs')
            if t == 'fq':
                if name == 'square' and not args:
                    return ('(fsq q %s)' % a, 'fq')
                if name == 'negate' and not args:
                    return ('(fneg q %s)' % a, 'fq')
                if name == 'double' and not args:
                    return ('(fadd q %s %s)' % (a, a), 'fq')
                if name == 'abs' and not args:
                    return ('(fabs %s)' % a, 'fq')
                if name == 'is_negative' and not args:
                    return ('(isNeg %s)' % a, 'bool')
                if name == 'is_nonnegative' and not args:
                    return ('(!isNeg %s)' % a, 'bool')
                if name == 'inverse' and not args:
                    self.need('(%s != 0)' % a)
                    return ('(finv q %s)' % a, 'fq')
                if name == 'isqrt' and not args:
                    n = self.fresh('isq')
                    self.pending.append('let %s := R1cs.isqrt %s h' % (n, a))
                    self.need('%s.1' % n)
                    return ([('%s.2.1' % n, 'bool'), ('%s.2.2' % n, 'fq')], 'tuple')
                if name == 'is_eq' and ts == ['fq']:
                    return ('(%s == %s)' % (a, av[0][0]), 'bool')
                if name == 'enforce_equal' and ts == ['fq']:
                    self.need('(%s == %s)' % (a, av[0][0]))
                    return ('()', 'unit')
                if name == 'conditional_enforce_equal' and ts == ['fq', 'bool']:
                    self.need('(!%s || %s == %s)' % (av[1][0], a, av[0][0]))
                    return ('()', 'unit')
                if name == 'to_bits_le' and not args:
                    return (a, 'bits')        # canonical little-endian bits (ark-r1cs-std enforces value < modulus)
                if name == 'value' and not args:
                    return (a, 'fqvalue')
                if name == 'is_constant' and not args:
                    return ('isConst', 'bool')
            if t == 'fqvalue' and name == 'unwrap_or' and ts == ['fq']:
                return (a, 'fq')          # proving mode: the variable has a value
            if t == 'bool':
                if name == 'not' and not args:
                    return ('(!%s)' % a, 'bool')
                if name in ('and', 'or') and ts == ['bool']:
                    return ('(%s %s %s)' % (a, '&&' if name == 'and' else '||', av[0][0]), 'bool')
                if name == 'xor' and ts == ['bool']:
                    return ('(%s != %s)' % (a, av[0][0]), 'bool')
                if name == 'is_eq' and ts == ['bool']:
                    return ('(%s == %s)' % (a, av[0][0]), 'bool')
                if name == 'enforce_equal' and ts == ['bool']:
                    self.need(a if av[0][0] == 'true' else '(%s == %s)' % (a, av[0][0]))
                    return ('()', 'unit')
                if name == 'select' and ts == ['fq', 'fq']:
                    return ('(if %s then %s else %s)' % (a, av[0][0], av[1][0]), 'fq')
            if t == 'natpoint' and name == 'vartime_compress_to_field' and not args:
                return ('(((Ext.ofAffine (%s, %s)).encodeField sqrtRatioArk).getD 0)' % a, 'fq')   # the native encoder, out of circuit
            if t == 'pair' and name == 'enforce_equal' and ts == ['pair']:
                self.need('(Gen.Formulas.r1cs_is_eq %s %s %s %s)' % (a[0], a[1], av[0][0][0], av[0][0][1]))   # EqGadget default: is_eq == TRUE
                return ('()', 'unit')
            if t == 'bits' and name in ('swap_remove', 'remove') and e[3] == [('num', 0)]:
                return ('(%s %% 2 == 1)' % a, 'bool')
            if t == 'pair' and name == 'is_eq' and ts == ['pair']:
                raise Untranslatable('nested ElementVar::is_eq')
            if name not in TRANSLATED_METHODS and name not in ('isqrt', 'is_eq', 'inverse', 'negate'):
                hp = self.method_helper(name, len(av))
                if hp is not None and self.depth <= 6:
                    self.depth += 1
                    try:
                        return self.ev_block(hp[1], dict(zip(hp[0], [(a, t)] + av)))
                    finally:
                        self.depth -= 1
            raise Untranslatable('gadget method .%s on %s%s' % (name, t, ts))
        if k == 'call':
            if e[1][0] != 'path':
                raise Untranslatable('call of a non-path')
            f = e[1][1]
            av = [self.ev(x, env) for x in e[2]]
            ts = [x[1] for x in av]
            if f in ('FqVar::one', 'FqVar::zero') and not av:
                return ('1' if f.endswith('one') else '0', 'fq')
            if f == 'FqVar::constant' and ts == ['fq']:
                return av[0]
            if f == 'FqVar::new_constant' and ts == ['cs', 'fq']:
                return av[1]
            if f in ('FqVar::new_witness', 'Boolean::new_witness') and len(av) == 2 and ts[0] == 'cs' and ts[1] in ('fq', 'bool'):
                return av[1]              # a witness carries whatever value the prover supplies: see `verif::hint`
            if f == 'Boolean::constant' and ts == ['bool']:
                return av[0]
            if f == 'FqVar::conditionally_select' and ts == ['bool', 'fq', 'fq']:
                return ('(if %s then %s else %s)' % (av[0][0], av[1][0], av[2][0]), 'fq')
            if f in ('AffineVar::new', 'Decaf377EdwardsVar::new') and ts == ['fq', 'fq']:
                return ((av[0][0], av[1][0]), 'pair')
            if f in ('Fq::sqrt_ratio_zeta',) and ts == ['fq', 'fq'] and av[0][0] == '1':
                n = self.fresh('hon')
                self.pending.append('let %s := R1cs.honest %s' % (n, av[1][0]))
                return ([('%s.1' % n, 'bool'), ('%s.2' % n, 'fq')], 'tuple')
            if f.endswith('verif::hint') and ts == ['fq', 'bool', 'fq']:
                n = self.fresh('hint')
                self.pending.append('let %s := h.getD (%s, %s)' % (n, av[1][0], av[2][0]))
                return ([('%s.1' % n, 'bool'), ('%s.2' % n, 'fq')], 'tuple')
            if f == 'Ok' and len(av) == 1:
                return av[0]
            if f.endswith('new_variable_omit_prime_order_check') and len(av) == 3 and av[1][1] == 'natinner':
                px, py = av[1][0]
                self.need('(C17.onCurve %s %s)' % (px, py))     # AffineVar allocation enforces the curve equation (ark-r1cs-std)
                return ((px, py), 'pair')
            if f in ('ElementVar::decompress_from_field', 'Self::decompress_from_field') and ts == ['fq']:
                n = self.fresh('dec')
                self.pending.append('let %s := Gen.Formulas.r1cs_decompress %s h' % (n, av[0][0]))
                self.need('%s.1' % n)
                return (('%s.2.1' % n, '%s.2.2' % n), 'pair')
            if f in ('Fq::from',) and len(e[2]) == 1 and e[2][0][0] == 'num':
                return (str(e[2][0][1]), 'fq')
            hp = self.helper(f.split('::')[-1], len(av))
            if hp is not None and self.depth <= 6:
                self.depth += 1
                try:
                    return self.ev_block(hp[1], dict(zip(hp[0], av)))
                finally:
                    self.depth -= 1
            raise Untranslatable('gadget call of %s%s' % (f, ts))
        if k == 'path':
            p = e[1]
            if p in ('Boolean::TRUE', 'Boolean::FALSE', 'Boolean::<Fq>::TRUE', 'Boolean::<Fq>::FALSE'):
                return ('true' if p.endswith('TRUE') else 'false', 'bool')
            return super().ev(e, env)
        if k == 'field':
            a, t = self.ev(e[1], env)
            if t == 'pair' and e[2] == 'inner':
                return (a, 'pair')
            if t == 'pair' and e[2] in ('x', 'y'):
                return (a['xy'.index(e[2])], 'fq')
            if t == 'natpoint' and e[2] == 'inner':
                return (a, 'natinner')
            if t == 'tuple' and e[2].isdigit() and int(e[2]) < len(a):
                return a[int(e[2])]
            raise Untranslatable('gadget field .%s of %s' % (e[2], t))
        if k == 'index':
            a, t = self.ev(e[1], env)
            if t == 'bits' and e[2] == ('num', 0):
                return ('(%s %% 2 == 1)' % a, 'bool')
            raise Untranslatable('gadget index of %s' % t)
        if k == 'struct':
            if e[1] in ('ElementVar', 'Self') and len(e[2]) == 1 and e[2][0][0] == 'inner':
                a, t = self.ev(e[2][0][1], env)
                if t == 'pair':
                    return (a, 'pair')
            raise Untranslatable('struct literal %s' % e[1])
        if k == 'tuple':
            return ([self.ev(x, env) for x in e[1]], 'tuple')
        if k == 'macrocall' and e[1] == 'ns':
            return ('cs', 'cs')
        return super().ev(e, env)

    def ev_block(self, stmts, env):
        """a helper body / block in a gadget: lets, constraint statements, a tail value; no control flow"""
        env = dict(env)
        for i, st in enumerate(stmts):
            if st[0] == 'macro':
                continue
            if st[0] == 'cfgstmt' and 'decaf377_verif' in st[1]:
                st = st[2]
            if st[0] == 'let' and st[2] is not None:
                self.bind_pat(st[1], self.ev(st[2], env), env)
                continue
            if st[0] == 'assign':
                env = self.run_assigns([st], env)
                continue
            if st[0] == 'expr' and st[2]:
                self.effect(st[1], env)
                continue
            if st[0] in ('expr', 'return') and i == len(stmts) - 1:
                return self.ev(st[1], env)
            raise Untranslatable('statement %s in a gadget helper' % st[0])
        return ('()', 'unit')

    pending = None

    def flush(self, ind):
        out = ''.join('%s%s\n' % (ind, l) for l in self.pending)
        del self.pending[:]
        return out

    def bind(self, name, val, env, ind):
        pre = self.flush(ind)
        return pre + super().bind(name, val, env, ind)

    def run(self, stmts, env, ind='  ', tail=True):
        if self.pending is None:
            self.pending = []
        if stmts and stmts[0][0] == 'let' and stmts[0][2] is not None and stmts[0][1][0] == 'ptuple':
            # tuple lets: evaluate, flush the auxiliary lets first
            pat, e = stmts[0][1], stmts[0][2]
            v, t = self.ev(e, env)
            if t != 'tuple' or len(v) != len(pat[1]) or any(p_[0] != 'pname' for p_ in pat[1]):
                raise Untranslatable('gadget tuple pattern')
            env = dict(env)
            pre = self.flush(ind)
            for p_, x in zip(pat[1], v):
                pre += Sym.bind(self, p_[1], x, env, ind)
            return pre + self.run(stmts[1:], env, ind)
        if stmts and stmts[0][0] == 'if' and self.diverges(stmts[0][2]) and stmts[0][3] is None:
            c, tc = self.ev(stmts[0][1], env)
            saved = list(self.sat)
            th = self.run(stmts[0][2], env, ind + '  ')
            self.sat = saved
            el = self.run(stmts[1:], env, ind + '  ')
            return '%sif %s then\n%s\n%selse\n%s' % (ind, c, th, ind, el)
        return super().run(stmts, env, ind)

    def run_cfg(self, s, rest, env, ind):
        if 'decaf377_verif' in s[1]:
            return self.run([s[2]] + rest, env, ind)       # the hook: where the prover's choice of witnesses enters
        raise Untranslatable('cfg-conditional statement')

    def effect(self, e, env):
        v, t = self.ev(e, env)
        if t != 'unit':
            raise Untranslatable('expression statement of type %s' % t)

    def ret(self, v, t):
        sat = ' && '.join(self.sat) if self.sat else 'true'
        pre = ''
        if t == 'pair':
            outs = '%s, %s' % v
        elif t == 'tuple':
            outs = ', '.join(x[0] for x in v)
        elif t in ('fq', 'bool'):
            outs = v
        else:
            raise Untranslatable('gadget result of type %s' % t)
        if self.cfg.get('nosat'):
            if self.sat:
                raise Untranslatable('constraints in a value-only gadget')
            return outs
        return '%s(%s, %s)' % (pre, sat, outs)


class SarkSym(Sym):
    """the table-driven `sqrt_ratio_zeta` of src/ark_curve/invsqrt.rs (its straight-line main routine).  Values: field
    elements, u64 counters as naturals (`& 0xFF` = `% 256`, `>> k` = `/ 2^k`, `<< k` = `* 2^k`; no wrap-around is modelled:
    every counter stays below 2^48), exponents as naturals.  The tables enter by their contract with Model/Sqrt.lean:
    `SQRT_LOOKUP_TABLES.gK[i]` is `gtab K i`, `s_lookup[&x]` is `sLookup x` (a miss is the panic = `none`),
    `nonsquare_lookup` is read from the array literal in `SquareRootTables::new`."""

    def ev(self, e, env):
        k = e[0]
        if k == 'num':
            return (str(e[1]), 'int')
        if k == 'un' and e[1] in ('&', '*'):
            return self.ev(e[2], env)
        if k == 'bin':
            op = e[1]
            a, ta = self.ev(e[2], env)
            b, tb = self.ev(e[3], env)
            ints = ('int', 'u64')
            if op == '/' and ta == tb == 'fq':
                return ('(fmul q %s (finv q %s))' % (a, b), 'fq')       # `Div` = multiplication by the inverse (unwrap: den != 0 here)
            if ta in ints and tb in ints:
                if op == '&' and b in ('255', '1'):
                    return ('(%s %% %d)' % (a, int(b) + 1), 'u64')
                if op == '>>':
                    return ('(%s / 2 ^ %s)' % (a, b), 'u64')
                if op == '<<':
                    return ('(%s * 2 ^ %s)' % (a, b), 'u64')
                if op in ('+', '-', '*'):
                    return ('(%s %s %s)' % (a, op, b), 'u64')
                if op == '==':
                    return ('(%s == %s)' % (a, b), 'bool')
                raise Untranslatable('integer operator %s' % op)
            return super().ev(e, env)
        if k == 'method':
            name, args = e[2], e[3]
            a, t = self.ev(e[1], env)
            av = [self.ev(x, env) for x in args]
            if t == 'fq' and name == 'is_zero' and not av:
                return ('(%s == 0)' % a, 'bool')
            if t == 'fq' and name == 'pow_le_limbs' and [x[1] for x in av] == ['limbs']:
                return ('(min_pow_le_limbs %s %s)' % (a, av[0][0]), 'fq')  # the translated loop (proved equal to `powLeLimbs q`)
            if t == 'fq' and name == 'our_sqrt' and not av:
                return ('(min_our_sqrt %s)' % a, 'fq')                     # the translated loop (proved equal to `ourSqrt`)
            if t == 'fq' and name == 'pow' and [x[1] for x in av] in (['int'], ['u64']):
                return ('(powMod %s %s q)' % (a, av[0][0]), 'fq')
            if t in ('int', 'u64') and name == 'pow' and len(av) == 1 and av[0][1] in ('int', 'u64'):
                return ('(%s ^ %s)' % (a, av[0][0]), 'int')
            if t in ('int', 'u64') and name == 'into' and not av:
                return (a, t)
            return super().ev(e, env)
        if k == 'field':
            if e[1] == ('path', 'SQRT_LOOKUP_TABLES'):
                return (e[2], 'table')
            return super().ev(e, env)
        if k == 'path' and re.fullmatch(r'(Fq|Self)::[A-Z0-9_]+_LIMBS', e[1]):
            return ('Gen.fields_fq.Fq.%s.nats' % e[1].split('::')[1], 'limbs')
        if k == 'path' and e[1] in ('Self::ONE', 'Self::ZERO'):
            return ('1' if e[1].endswith('ONE') else '0', 'fq')
        if k == 'index':
            a, t = self.ev(e[1], env)
            i, ti = self.ev(e[2], env)
            if t == 'table':
                m = re.fullmatch(r'g(\d+)', a)
                if m and ti in ('u64', 'int'):
                    return ('(gtab %s %s)' % (m.group(1), i), 'fq')
                if a == 's_lookup' and ti == 'fq':
                    return (i, 'lookup')
                if a == 'nonsquare_lookup' and ti in ('u64', 'int'):
                    x0, x1 = self.nonsquare()
                    return ('(if %s == 0 then %s else %s)' % (i, x0, x1), 'fq')
            raise Untranslatable('index of %s' % t)
        if k == 'tuple':
            return ([self.ev(x, env) for x in e[1]], 'tuple')
        return super().ev(e, env)

    def nonsquare(self):
        src = open(os.path.join(self.repo, self.cfg['file'])).read()
        m = re.search(r'let\s+nonsquare_lookup\s*=\s*\[([^\]]*)\]\s*;', src)
        if not m:
            raise Untranslatable('nonsquare_lookup literal not found')
        parts = [x.strip() for x in m.group(1).split(',') if x.strip()]
        if len(parts) != 2:
            raise Untranslatable('nonsquare_lookup shape')
        vals = []
        for x in parts:
            v, t = self.ev(Parser(tokenize(x)).expr(), {})
            if t != 'fq':
                raise Untranslatable('nonsquare_lookup entry')
            vals.append(v)
        return vals

    def bind(self, name, val, env, ind):
        lean, t = val
        if t in ('u64', 'int'):
            n = self.fresh(name)
            env[name] = (n, 'u64')
            return '%slet %s := %s\n' % (ind, n, lean)
        return super().bind(name, val, env, ind)

    def run(self, stmts, env, ind='  ', tail=True):
        if stmts and stmts[0][0] == 'let' and stmts[0][2] is not None and stmts[0][1][0] == 'pname':
            v, t = self.ev(stmts[0][2], env)
            if t == 'lookup':
                env = dict(env)
                n = self.fresh(stmts[0][1][1])
                env[stmts[0][1][1]] = (n, 'u64')
                # `Option.bind`, not `match`: both sides of the equality proof then have the same shape, and the kernel never
                # has to compare two stuck matches with different discriminants (it would evaluate the table to do so)
                return ('%s(sLookup %s).bind fun %s =>\n' % (ind, v, n) + self.run(stmts[1:], env, ind + '  '))
        return super().run(stmts, env, ind)

    def run_assigns(self, stmts, env):
        return super().run_assigns(stmts, env)

    def ret(self, v, t):
        if t == 'tuple' and [x[1] for x in v] == ['bool', 'fq']:
            return 'some (%s, %s)' % (v[0][0], v[1][0])
        raise Untranslatable('result of type %s' % t)


class LoopSym:
    """the body of the double-and-add loop of `Element::scalar_mul_both` (src/min_curve/element.rs): statements over two
    element-valued accumulators, the current limb and the bit index.  Values are Lean expressions of type `Ext`, `Nat`
    (u64: `>> i` = `/ 2 ^ i`, `& 1` = `% 2`) or `Bool`; `+` on elements is the translated addition (`addG`), `.double()`
    the translated doubling (`dblG`), `Self::conditional_select(&a, &b, Choice::from(f))` is `if f == 1 then b else a`
    (subtle's contract; the component-wise select of `Fq` is the subject of C10)."""

    def ev(self, e, env):
        k = e[0]
        if k == 'num':
            return (str(e[1]), 'u64')
        if k == 'path':
            if e[1] in env:
                return env[e[1]]
            if e[1] in ('Self::ONE', 'Fq::ONE'):
                return ('1', 'fq')
            m = re.fullmatch(r'(Fq|Self)::([A-Z0-9_]+)', e[1])
            if m and m.group(2).endswith('_LIMBS'):
                return ('Gen.fields_fq.Fq.%s.nats' % m.group(2), 'limbs')
            if m:
                return ('(fqLit Gen.fields_fq.Fq.%s)' % m.group(2), 'fq')
            raise Untranslatable('name %s in the loop body' % e[1])
        if k == 'un':
            a, t = self.ev(e[2], env)
            if e[1] in ('&', '*'):
                return (a, t)
            if e[1] == '!' and t == 'bool':
                return ('(!%s)' % a, 'bool')
            raise Untranslatable('unary %s' % e[1])
        if k == 'bin':
            op = e[1]
            (a, ta), (b, tb) = self.ev(e[2], env), self.ev(e[3], env)
            if ta == tb == 'u64':
                if op == '>>':
                    return ('(%s / 2 ^ %s)' % (a, b), 'u64')
                if op == '&' and b == '1':
                    return ('(%s %% 2)' % a, 'u64')
                if op in ('==', '!='):
                    return ('(%s %s %s)' % (a, op, b), 'bool')
            if ta == tb == 'ext' and op == '+':
                return ('(addG %s %s)' % (a, b), 'ext')
            if ta == tb == 'fq' and op in ('+', '-', '*'):
                return ('(%s q %s %s)' % ({'+': 'fadd', '-': 'fsub', '*': 'fmul'}[op], a, b), 'fq')
            if ta == tb == 'bool' and op in ('&&', '||', '=='):
                return ('(%s %s %s)' % (a, op, b), 'bool')
            raise Untranslatable('binary %s on %s, %s in the ladder body' % (op, ta, tb))
        if k == 'method':
            a, t = self.ev(e[1], env)
            if t == 'ext' and e[2] == 'double' and not e[3]:
                return ('(dblG %s)' % a, 'ext')
            if t == 'fq' and e[2] == 'ct_eq' and len(e[3]) == 1:
                b, tb = self.ev(e[3][0], env)
                if tb == 'fq':
                    return ('(%s == %s)' % (a, b), 'bool')
            if t == 'fq' and e[2] == 'pow_le_limbs' and len(e[3]) == 1:
                b, tb = self.ev(e[3][0], env)
                if tb == 'limbs':
                    return ('(min_pow_le_limbs %s %s)' % (a, b), 'fq')
            if e[2] in ('clone',) and not e[3]:
                return (a, t)
            raise Untranslatable('method .%s in the ladder body' % e[2])
        if k == 'call' and e[1][0] == 'path':
            f = e[1][1]
            av = [self.ev(x, env) for x in e[2]]
            if f in ('Self::conditional_select', 'Element::conditional_select') and [t for _, t in av] == ['ext', 'ext', 'choice']:
                return ('(if %s == 1 then %s else %s)' % (av[2][0], av[1][0], av[0][0]), 'ext')
            if f == 'Choice::from' and [t for _, t in av] == ['u64']:
                return (av[0][0], 'choice')
            if f in ('Fq::conditional_select', 'Self::conditional_select') and [t for _, t in av] == ['fq', 'fq', 'bool']:
                return ('(if %s then %s else %s)' % (av[2][0], av[1][0], av[0][0]), 'fq')
            raise Untranslatable('call of %s in the ladder body' % f)
        raise Untranslatable('expression %s in the ladder body' % k)

    def exec(self, stmts, env):
        env = dict(env)
        for s in stmts:
            k = s[0]
            if k == 'macro':
                continue
            if k == 'let' and s[1][0] == 'pname' and s[2] is not None:
                env[s[1][1]] = self.ev(s[2], env)
            elif k == 'assign':
                _, name, op, e = s
                if name not in env:
                    raise Untranslatable('assignment to %s' % name)
                if op:
                    e = ('bin', op, ('path', name), e)
                env[name] = self.ev(e, env)
            elif k == 'expr' and s[1][0] == 'ifexpr' or k == 'if':
                c, th, el = (s[1][1], s[1][2], s[1][3]) if k == 'expr' else (s[1], s[2], s[3] or [])
                cv, ct = self.ev(c, env)
                if ct != 'bool':
                    raise Untranslatable('condition of type %s' % ct)
                e1, e2 = self.exec(th, env), self.exec(el, env)
                for name in env:
                    if e1.get(name) != e2.get(name):
                        (v1, t1), (v2, t2) = e1[name], e2[name]
                        if t1 != t2:
                            raise Untranslatable('branches disagree on the type of %s' % name)
                        env[name] = ('(if %s then %s else %s)' % (cv, v1, v2), t1)
            else:
                raise Untranslatable('statement %s in the ladder body' % k)
        return env


def translate_oursqrt(repo, cfg, index):
    """`our_sqrt`: straight-line prefix, then `for i in (2..=Fq::TWO_ADICITY).rev() { for _j in 1..=i - 2 { INNER } REST }`, result `z`"""
    src = open(os.path.join(repo, cfg['file'])).read()
    text, l0, l1 = find_fn(src, cfg['impl'], cfg['fn'])
    info = dict(file=cfg['file'], fn=cfg['fn'], lines=[l0, l1], sha256=hashlib.sha256(text.encode()).hexdigest())
    t = re.sub(r'//[^\n]*', '', text).strip()
    m = re.fullmatch(r'\{(.*?)\bfor\s+(\w+)\s+in\s+\(\s*2\s*\.\.=\s*Fq::TWO_ADICITY\s*\)\s*\.rev\(\)\s*\{\s*'
                     r'for\s+(\w+)\s+in\s+1\s*\.\.=\s*(\w+)\s*-\s*2\s*\{([^{}]*)\}(.*)\}\s*(\w+)\s*\}', t, re.S)
    if not m or m.group(4) != m.group(2):
        raise Untranslatable('not the shape `prefix; for i in (2..=TWO_ADICITY).rev() { for _j in 1..=i-2 { … } … } z`')
    prefix, ivar, _j, _, inner, rest, result = m.groups()
    ls = LoopSym()
    env = ls.exec(Parser(tokenize('{' + prefix + '}')).block(), {'self': ('x', 'fq')})
    state = [n for n in env if n != 'self']
    if len(state) != 4 or result not in state:
        raise Untranslatable('loop state of our_sqrt: %s' % state)
    inner_stmts = Parser(tokenize('{' + inner + '}')).block()
    ienv = ls.exec(inner_stmts, {n: (n, 'fq') for n in state})
    changed = [n for n in state if ienv[n][0] != n]
    if len(changed) != 1:
        raise Untranslatable('inner loop must update exactly one variable')
    bvar = changed[0]
    inner_def = ienv[bvar][0].replace(bvar, 'b') if bvar != 'b' else ienv[bvar][0]
    renv = {n: (n, 'fq') for n in state}
    renv[ivar] = ('i', 'u64')
    renv[bvar] = ('bb', 'fq')
    out = ls.exec(Parser(tokenize('{' + rest + '}')).block(), renv)
    order = [result] + [n for n in state if n != result]
    info['state'] = order
    return dict(inner='  %s' % re.sub(r'\b%s\b' % bvar, 'b', ienv[bvar][0]),
                step_params=' '.join(order), bvar=bvar,
                step='  let bb := (List.range (i - 2)).foldl (fun b _ => min_our_sqrt_inner b) %s\n  (%s)' % (bvar, ', '.join(out[n][0] for n in order)),
                init='(%s)' % ', '.join(env[n][0] for n in order), order=order), info


def translate_powloop(repo, cfg, index):
    src = open(os.path.join(repo, cfg['file'])).read()
    text, l0, l1 = find_fn(src, cfg['impl'], cfg['fn'])
    info = dict(file=cfg['file'], fn=cfg['fn'], lines=[l0, l1], sha256=hashlib.sha256(text.encode()).hexdigest())
    m = re.fullmatch(r'\{\s*let\s+mut\s+(\w+)\s*=\s*(?:Self::ONE|Fq::ONE|(?:Self|Fq)::from\(\s*1u64\s*\)|(?:Self|Fq)::one\(\))\s*;\s*let\s+mut\s+(\w+)\s*=\s*\*self\s*;\s*'
                     r'for\s+&?(\w+)\s+in\s+(\w+)(?:\.as_ref\(\))?(?:\.iter\(\))?\s*\{\s*for\s+(\w+)\s+in\s+0\s*\.\.\s*64\s*(\{.*\})\s*\}\s*(\w+)\s*\}',
                     re.sub(r'//[^\n]*', '', text), re.S)
    if not m:
        raise Untranslatable('not the shape `acc = ONE; ins = *self; for limb in limbs { for i in 0..64 { … } } acc`')
    acc, ins, limb, limbs, i, body, result = m.groups()
    sig = re.search(r'fn\s+%s\b[^(]*\(\s*&self\s*,\s*(\w+)\s*:' % cfg['fn'], src)
    if not sig or sig.group(1) != limbs or result != acc:
        raise Untranslatable('signature / result of the power loop')
    stmts = Parser(tokenize(body)).block()
    env = {acc: ('acc', 'fq'), ins: ('ins', 'fq'), limb: ('limb', 'u64'), i: ('i', 'u64')}
    out = LoopSym().exec(stmts, env)
    return '  (%s, %s)' % (out[acc][0], out[ins][0]), info


def translate_ladder(repo, cfg, index):
    src = open(os.path.join(repo, cfg['file'])).read()
    text, l0, l1 = find_fn(src, cfg['impl'], cfg['fn'])
    info = dict(file=cfg['file'], fn=cfg['fn'], lines=[l0, l1], sha256=hashlib.sha256(text.encode()).hexdigest())
    m = re.fullmatch(r'\{\s*let\s+mut\s+(\w+)\s*=\s*Self::IDENTITY\s*;\s*let\s+mut\s+(\w+)\s*=\s*self\s*;\s*'
                     r'for\s+(\w+)\s+in\s+(\w+)\s*\{\s*for\s+(\w+)\s+in\s+0\s*\.\.\s*64\s*(\{.*\})\s*\}\s*(\w+)\s*\}',
                     re.sub(r'//[^\n]*', '', text), re.S)
    if not m:
        raise Untranslatable('not the shape `acc = IDENTITY; ins = self; for limb in limbs { for i in 0..64 { … } } acc`')
    acc, ins, limb, limbs, i, body, result = m.groups()
    sig = re.search(r'fn\s+%s\s*<\s*const\s+(\w+)\s*:\s*bool\s*>\s*\(\s*self\s*,\s*(\w+)\s*:' % cfg['fn'], src)
    if not sig or sig.group(2) != limbs or result != acc:
        raise Untranslatable('signature / result of the ladder')
    stmts = Parser(tokenize(body)).block()
    env = {acc: ('acc', 'ext'), ins: ('ins', 'ext'), limb: ('limb', 'u64'), i: ('i', 'u64'), sig.group(1): ('CT', 'bool')}
    out = LoopSym().exec(stmts, env)
    step = '  (%s, %s)' % (out[acc][0], out[ins][0])
    return step, info


# ---------------------------------------------------------------------------------------------- targets

EXT1 = (('X', 'Y', 'Z', 'T'), 'ext')

TARGETS = [
    dict(name='min_double', file='src/min_curve/element.rs', impl=r'impl\s+Element\s*\{', fn='double', mode='pure', ret='ext',
         params='(X Y Z T : Nat)', env={'self': EXT1}, new_order='xyzt', fallback='Ext.doubleMin ⟨X, Y, Z, T⟩', lean_ret='Ext'),
    dict(name='min_add', file='src/min_curve/element.rs', impl=r'impl\s+Add\s+for\s+Element\s*\{', fn='add', mode='pure', ret='ext',
         params='(X1 Y1 Z1 T1 X2 Y2 Z2 T2 : Nat)', env={'self': (('X1', 'Y1', 'Z1', 'T1'), 'ext'), 'other': (('X2', 'Y2', 'Z2', 'T2'), 'ext')},
         new_order='xyzt', fallback='Ext.addMin ⟨X1, Y1, Z1, T1⟩ ⟨X2, Y2, Z2, T2⟩', lean_ret='Ext'),
    dict(name='min_compress', file='src/min_curve/element.rs', impl=r'impl\s+Element\s*\{', fn='vartime_compress_to_field', mode='option', ret='fq',
         params='(sr : SR) (X Y Z T : Nat)', env={'self': EXT1}, new_order='xyzt', fallback='Ext.encodeField sr ⟨X, Y, Z, T⟩', lean_ret='Option Nat'),
    dict(name='min_elligator', file='src/min_curve/element.rs', impl=r'impl\s+Element\s*\{', fn='elligator_map', mode='option', ret='ext',
         params='(sr : SR) (r0 : Nat)', env={'r_0': ('r0', 'fq')}, new_order='xyzt', fallback='elligator sr ZETA_min r0', lean_ret='Option Ext'),
    dict(name='min_decompress', file='src/min_curve/element.rs', impl=r'impl\s+Encoding\s*\{', fn='vartime_decompress', mode='except', ret='ext',
         params='(sr : SR) (bytes : List Nat)', env={'self': ('bytes', 'enc')}, new_order='xyzt', fallback='decode32 sr bytes', lean_ret='Except DecErr Ext'),
    dict(name='ark_compress', file='src/ark_curve/encoding.rs', impl=r'impl\s+Element\s*\{', fn='vartime_compress_to_field', mode='option', ret='fq',
         params='(sr : SR) (X Y Z T : Nat)', env={'self': EXT1}, new_order=None, fallback='Ext.encodeField sr ⟨X, Y, Z, T⟩', lean_ret='Option Nat'),
    dict(name='ark_elligator', file='src/ark_curve/elligator.rs', impl=r'impl\s+Element\s*\{', fn='elligator_map', mode='option', ret='ext',
         params='(sr : SR) (r0 : Nat)', env={'r_0': ('r0', 'fq')}, new_order=None, fallback='elligator sr ZETA r0', lean_ret='Option Ext'),
    dict(name='ark_decompress', file='src/ark_curve/encoding.rs', impl=r'impl\s+Encoding\s*\{', fn='vartime_decompress', mode='except', ret='ext',
         params='(sr : SR) (bytes : List Nat)', env={'self': ('bytes', 'enc')}, new_order=None, fallback='decode32 sr bytes', lean_ret='Except DecErr Ext'),
    dict(name='min_neg', file='src/min_curve/element.rs', impl=r'impl\s+Neg\s+for\s+Element\s*\{', fn='neg', mode='pure', ret='ext',
         params='(X Y Z T : Nat)', env={'self': EXT1}, new_order='xyzt', fallback='Ext.neg ⟨X, Y, Z, T⟩', lean_ret='Ext'),
    dict(name='min_eq', file='src/min_curve/element.rs', impl=r'impl\s+PartialEq\s+for\s+Element\s*\{', fn='eq', mode='pure', ret='bool',
         params='(X1 Y1 Z1 T1 X2 Y2 Z2 T2 : Nat)', env={'self': (('X1', 'Y1', 'Z1', 'T1'), 'ext'), 'other': (('X2', 'Y2', 'Z2', 'T2'), 'ext')},
         new_order='xyzt', fallback='Ext.eq ⟨X1, Y1, Z1, T1⟩ ⟨X2, Y2, Z2, T2⟩', lean_ret='Bool'),
    dict(name='min_is_identity', file='src/min_curve/element.rs', impl=r'impl\s+Element\s*\{', fn='is_identity', mode='pure', ret='bool',
         params='(X Y Z T : Nat)', env={'self': EXT1}, new_order='xyzt', fallback='Ext.isIdentity ⟨X, Y, Z, T⟩', lean_ret='Bool'),
    dict(name='ark_eq', file='src/ark_curve/element/projective.rs', impl=r'impl\s+PartialEq\s+for\s+Element\s*\{', fn='eq', mode='pure', ret='bool',
         params='(X1 Y1 Z1 T1 X2 Y2 Z2 T2 : Nat)', env={'self': (('X1', 'Y1', 'Z1', 'T1'), 'ext'), 'other': (('X2', 'Y2', 'Z2', 'T2'), 'ext')},
         new_order=None, fallback='Ext.eq ⟨X1, Y1, Z1, T1⟩ ⟨X2, Y2, Z2, T2⟩', lean_ret='Bool'),
    dict(name='ark_affine_eq', file='src/ark_curve/element/affine.rs', impl=r'impl\s+PartialEq\s+for\s+AffinePoint\s*\{', fn='eq', mode='pure', ret='bool',
         params='(X1 Y1 Z1 T1 X2 Y2 Z2 T2 : Nat)', env={'self': (('X1', 'Y1', 'Z1', 'T1'), 'ext'), 'other': (('X2', 'Y2', 'Z2', 'T2'), 'ext')},
         new_order=None, fallback='Ext.eq ⟨X1, Y1, Z1, T1⟩ ⟨X2, Y2, Z2, T2⟩', lean_ret='Bool'),
    dict(name='ark_is_identity', file='src/ark_curve/element/projective.rs', impl=r'impl\s+Element\s*\{', fn='is_identity', mode='pure', ret='bool',
         params='(X Y Z T : Nat)', env={'self': EXT1}, new_order=None, fallback='Ext.isIdentity ⟨X, Y, Z, T⟩', lean_ret='Bool'),
    dict(name='min_hash_to_curve', file='src/min_curve/element.rs', impl=r'impl\s+Element\s*\{', fn='hash_to_curve', mode='option', ret='ext',
         params='(sr : SR) (r1 r2 : Nat)', env={'r_1': ('r1', 'fq'), 'r_2': ('r2', 'fq')}, new_order='xyzt', calls={'elligator_map': ('min_elligator', ['fq'])},
         ext_add='Gen.Formulas.min_add', fallback='hashToCurve sr ZETA_min Ext.addMin r1 r2', lean_ret='Option Ext'),
    dict(name='min_encode_to_curve', file='src/min_curve/element.rs', impl=r'impl\s+Element\s*\{', fn='encode_to_curve', mode='option', ret='ext',
         params='(sr : SR) (r0 : Nat)', env={'r': ('r0', 'fq')}, new_order='xyzt', calls={'elligator_map': ('min_elligator', ['fq'])},
         fallback='elligator sr ZETA_min r0', lean_ret='Option Ext'),
    dict(name='ark_hash_to_curve', file='src/ark_curve/elligator.rs', impl=r'impl\s+Element\s*\{', fn='hash_to_curve', mode='option', ret='ext',
         params='(sr : SR) (r1 r2 : Nat)', env={'r_1': ('r1', 'fq'), 'r_2': ('r2', 'fq')}, new_order=None, calls={'elligator_map': ('ark_elligator', ['fq'])},
         ext_add='Ext.addRef', fallback='hashToCurve sr ZETA Ext.addRef r1 r2', lean_ret='Option Ext'),
    dict(name='ark_encode_to_curve', file='src/ark_curve/elligator.rs', impl=r'impl\s+Element\s*\{', fn='encode_to_curve', mode='option', ret='ext',
         params='(sr : SR) (r0 : Nat)', env={'r': ('r0', 'fq')}, new_order=None, calls={'elligator_map': ('ark_elligator', ['fq'])},
         fallback='elligator sr ZETA r0', lean_ret='Option Ext'),
    dict(name='ark_sqrt_ratio_zeta', file='src/ark_curve/invsqrt.rs', impl=r'impl\s+Fq\s*\{', fn='sqrt_ratio_zeta', sark=True, mode='option', ret='tuple',
         params='(num den : Nat)', env={'num': ('num', 'fq'), 'den': ('den', 'fq')}, new_order=None, fallback='sqrtRatioArk num den', lean_ret='Option (Bool × Nat)'),
    dict(name='min_pow_le_limbs_step', file='src/min_curve/invsqrt.rs', impl=r'impl\s+Fq\s*\{', fn='pow_le_limbs', powloop=True,
         params='(limb i : Nat) (acc ins : Nat)', lean_ret='Nat × Nat', mode='pure', ret='fq', env={}, new_order=None,
         fallback='(if (limb / 2 ^ i) % 2 == 1 then fmul q acc ins else acc, fmul q ins ins)'),
    dict(name='fq_power_step', file='src/fields/fq.rs', impl=r'impl\s+Fq\s*\{', fn='power', powloop='fq_power',
         params='(limb i : Nat) (acc ins : Nat)', lean_ret='Nat × Nat', mode='pure', ret='fq', env={}, new_order=None,
         fallback='(if (limb / 2 ^ i) % 2 == 1 then fmul q acc ins else acc, fmul q ins ins)'),
    dict(name='min_our_sqrt', file='src/min_curve/invsqrt.rs', impl=r'impl\s+Fq\s*\{', fn='our_sqrt', oursqrt=True,
         params='(x : Nat)', lean_ret='Nat', mode='pure', ret='fq', env={}, new_order=None, fallback='ourSqrt x'),
    dict(name='min_sqrt_ratio_zeta', file='src/min_curve/invsqrt.rs', impl=r'impl\s+Fq\s*\{', fn='non_arkworks_sqrt_ratio_zeta', sark=True, mode='option', ret='tuple',
         params='(num den : Nat)', env={'num': ('num', 'fq'), 'den': ('den', 'fq')}, new_order=None, fallback='sqrtRatioMin num den', lean_ret='Option (Bool × Nat)'),
    dict(name='min_scalar_mul_step', file='src/min_curve/element.rs', impl=r'impl\s+Element\s*\{', fn='scalar_mul_both', ladder=True,
         params='(CT : Bool) (limb i : Nat) (acc ins : Ext)', lean_ret='Ext × Ext', mode='pure', ret='ext', env={}, new_order='xyzt',
         fallback='(if (limb / 2 ^ i) % 2 == 1 then Ext.addMin acc ins else acc, Ext.doubleMin ins)'),
    dict(name='min_scalar_mul_vartime', file='src/min_curve/element.rs', impl=r'impl\s+Element\s*\{', fn='scalar_mul_vartime', ladder_wrapper=True,
         params='(p : Ext) (limbs : List Nat)', lean_ret='Ext', mode='pure', ret='ext', env={}, new_order='xyzt', fallback='min_scalar_mul_both false p limbs'),
    dict(name='min_scalar_mul', file='src/min_curve/element.rs', impl=r'impl\s+Element\s*\{', fn='scalar_mul', ladder_wrapper=True,
         params='(p : Ext) (limbs : List Nat)', lean_ret='Ext', mode='pure', ret='ext', env={}, new_order='xyzt', fallback='min_scalar_mul_both true p limbs'),
    dict(name='r1cs_compress', file='src/ark_curve/r1cs/inner.rs', impl=r'impl\s+ElementVar\s*\{', fn='compress_to_field', gadget=True, mode='pure', ret='fq',
         params='(x y : Nat) (h : R1cs.Hint)', env={'self': (('x', 'y'), 'pair')}, new_order=None, fallback='R1cs.compress x y h', lean_ret='Bool × Nat'),
    dict(name='r1cs_decompress', file='src/ark_curve/r1cs/inner.rs', impl=r'impl\s+ElementVar\s*\{', fn='decompress_from_field', gadget=True, mode='pure', ret='pair',
         params='(s : Nat) (h : R1cs.Hint)', env={'s_var': ('s', 'fq')}, new_order=None, fallback='R1cs.decompress s h', lean_ret='Bool × Nat × Nat'),
    dict(name='r1cs_elligator', file='src/ark_curve/r1cs/inner.rs', impl=r'impl\s+ElementVar\s*\{', fn='elligator_map', gadget=True, mode='pure', ret='pair',
         params='(r0 : Nat) (h : R1cs.Hint)', env={'r_0_var': ('r0', 'fq')}, new_order=None, fallback='R1cs.elligator r0 h', lean_ret='Bool × Nat × Nat'),
    dict(name='r1cs_is_eq', file='src/ark_curve/r1cs/inner.rs', impl=r'impl\s+EqGadget\s*<\s*Fq\s*>\s*for\s+ElementVar\s*\{', fn='is_eq', gadget=True, nosat=True, mode='pure', ret='bool',
         params='(x1 y1 x2 y2 : Nat)', env={'self': (('x1', 'y1'), 'pair'), 'other': (('x2', 'y2'), 'pair')}, new_order=None,
         fallback='R1cs.isEq (x1, y1) (x2, y2)', lean_ret='Bool'),
    dict(name='r1cs_alloc_witness', file='src/ark_curve/r1cs/inner.rs', impl=r'impl\s+AllocVar\s*<\s*Element\s*,\s*Fq\s*>\s*for\s+ElementVar\s*\{', fn='new_variable',
         arm='AllocationMode::Witness', gadget=True, mode='pure', ret='pair', params='(px py : Nat) (h : R1cs.Hint)',
         env={'group_projective_point': (('px', 'py'), 'natpoint'), 'cs': ('cs', 'cs'), 'mode': ('mode', 'mode')}, new_order=None,
         fallback='R1cs.allocWitness px py h', lean_ret='Bool × Nat × Nat'),
    dict(name='r1cs_is_nonnegative', file='src/ark_curve/r1cs/fqvar_ext.rs', impl=r'impl\s+FqVarExtension\s+for\s+FqVar\s*\{', fn='is_nonnegative', gadget=True, nosat=True, mode='pure', ret='bool',
         params='(x : Nat)', env={'self': ('x', 'fq')}, new_order=None, fallback='!isNeg x', lean_ret='Bool'),
    dict(name='r1cs_is_negative', file='src/ark_curve/r1cs/fqvar_ext.rs', impl=r'impl\s+FqVarExtension\s+for\s+FqVar\s*\{', fn='is_negative', gadget=True, nosat=True, mode='pure', ret='bool',
         params='(x : Nat)', env={'self': ('x', 'fq')}, new_order=None, fallback='isNeg x', lean_ret='Bool'),
    dict(name='r1cs_abs', file='src/ark_curve/r1cs/fqvar_ext.rs', impl=r'impl\s+FqVarExtension\s+for\s+FqVar\s*\{', fn='abs', gadget=True, nosat=True, mode='pure', ret='fq',
         params='(x : Nat)', env={'self': ('x', 'fq')}, new_order=None, fallback='fabs x', lean_ret='Nat'),
    dict(name='r1cs_isqrt', file='src/ark_curve/r1cs/fqvar_ext.rs', impl=r'impl\s+FqVarExtension\s+for\s+FqVar\s*\{', fn='isqrt', gadget=True, mode='pure', ret='tuple',
         params='(isConst : Bool) (x : Nat) (h : R1cs.Hint)', env={'self': ('x', 'fq')}, new_order=None,
         fallback='if isConst then (true, h.getD (R1cs.honest x)) else R1cs.isqrt x h', lean_ret='Bool × Bool × Nat'),
]


def const_table(repo, rel, index):
    """names visible as constants in file `rel` -> generated Lean identifiers"""
    tab = {}
    if rel.startswith('src/min_curve/'):
        mods = ['src/min_curve/constants.rs']
    else:
        mods = ['src/ark_curve/constants.rs']
    for it in index['items']:
        if it.get('unknown'):
            continue
        if it['rel'] in mods and it['ctx'] == 'top':
            tab[it['name']] = it['lean']
        if it['rel'] == 'src/ark_curve/edwards.rs' and it['ctx'].startswith('TECurveConfig_'):
            tab['%s::%s' % (it['ctx'][len('TECurveConfig_'):], it['name'])] = it['lean']
    # `pub static NAME: Lazy<Fq> = Lazy::new(|| EXPR);` whose value the constant translator does not evaluate
    src = open(os.path.join(repo, mods[0])).read()
    for m in re.finditer(r'\bstatic\s+(\w+)\s*:\s*Lazy\s*<\s*Fq\s*>\s*=\s*Lazy::new\(\s*\|\|([^;]*)\)\s*;', src):
        if m.group(1) not in tab:
            try:
                tab[m.group(1)] = ('expr', Parser(tokenize(m.group(2))).expr())
            except Untranslatable:
                pass
    return tab


INDEX_PATH = ['']


def const_kinds(constants_lean):
    """NAME -> 'int' for constants of an integer / big-integer Rust type (read off the doc comments the constant translator writes)"""
    kinds = {}
    try:
        for m in re.finditer(r'/-- (\S+) : (\S+) : (\w+) : ([^\n]*?) -/', open(constants_lean).read()):
            ty = m.group(4)
            if 'Fq' not in ty and 'Fr' not in ty and 'Fp' not in ty and re.search(r'\bu(8|16|32|64|128|size)\b|BigInteger', ty):
                if m.group(1).startswith('src/ark_curve/constants') or m.group(1).startswith('src/min_curve/constants'):
                    kinds[m.group(3)] = 'int'
    except OSError:
        pass
    return kinds


def translate(repo, cfg, index):
    path = os.path.join(repo, cfg['file'])
    src = open(path).read()
    text, l0, l1 = find_fn(src, cfg['impl'], cfg['fn'])
    info = dict(file=cfg['file'], fn=cfg['fn'], lines=[l0, l1], sha256=hashlib.sha256(text.encode()).hexdigest())
    if cfg.get('arm'):
        m = re.search(re.escape(cfg['arm']) + r'\s*=>\s*\{', text)
        if not m:
            raise Untranslatable('match arm %s not found' % cfg['arm'])
        depth, j = 1, m.end()
        while depth:
            depth += text[j] == '{'
            depth -= text[j] == '}'
            j += 1
        text = text[m.end() - 1:j]
    p = Parser(tokenize(text))
    stmts = p.block()
    sym = (GSym if cfg.get('gadget') else SarkSym if cfg.get('sark') else Sym)(cfg, const_table(repo, cfg['file'], index))
    sym.repo = repo
    sym.ckinds = const_kinds(os.path.join(os.path.dirname(INDEX_PATH[0]), 'Constants.lean'))
    body = sym.run(stmts, dict(cfg['env']))
    return body, info


def main():
    repo, out = sys.argv[1], sys.argv[2]
    index = json.load(open(os.path.join(os.path.dirname(out), 'Constants.index.json')))
    INDEX_PATH[0] = os.path.join(os.path.dirname(out), 'Constants.index.json')
    parts = ['/- GENERATED by translator/extract_formulas.py from the Rust sources of the repository; do not edit. -/',
             'import Decaf.Model.R1cs', '', 'namespace Gen.Formulas', 'open Model', '',
             '/-- an integer / big-integer constant of the sources as a natural number -/',
             'def litNat : Lit → Nat', '  | .nat n => n', '  | .dec n => n', '  | _ => 0', '',
             '/-- an `Element` constant of the minimal backend (struct literal x, y, z, t) -/',
             'def extLit : Lit → Ext', '  | .struct [x, y, z, t] => ⟨fqLit x, fqLit y, fqLit z, fqLit t⟩', '  | _ => ⟨0, 0, 0, 0⟩', '']
    report = {}
    for cfg in TARGETS:
        info = dict(file=cfg['file'], fn=cfg['fn'])
        try:
            if cfg.get('oursqrt'):
                parts_os, info = translate_oursqrt(repo, cfg, index)
                n = len(parts_os['order'])
                proj = ['st.1', 'st.2.1', 'st.2.2.1', 'st.2.2.2']
                parts.append('/-- %s `our_sqrt` lines %d-%d: body of the inner loop `for _j in 1..=i-2` -/' % (cfg['file'], info['lines'][0], info['lines'][1]))
                parts.append('def min_our_sqrt_inner (b : Nat) : Nat :=\n%s\n' % parts_os['inner'])
                parts.append('/-- body of the outer loop `for i in (2..=TWO_ADICITY).rev()` on the state (%s) -/' % ', '.join(parts_os['order']))
                parts.append('def min_our_sqrt_step (i : Nat) (%s : Nat) : Nat × Nat × Nat × Nat :=\n%s\n' % (parts_os['step_params'], parts_os['step']))
                body = ('  ((List.range\' 2 (litNat Gen.fields_fq.Fq.TWO_ADICITY - 1)).reverse.foldl (fun st i => min_our_sqrt_step i %s)\n    %s).1'
                        % (' '.join(proj), parts_os['init']))
            elif cfg.get('powloop'):
                body, info = translate_powloop(repo, cfg, index)
            elif cfg.get('ladder'):
                body, info = translate_ladder(repo, cfg, index)
            elif cfg.get('ladder_wrapper'):
                src = open(os.path.join(repo, cfg['file'])).read()
                text, l0, l1 = find_fn(src, cfg['impl'], cfg['fn'])
                mm = re.fullmatch(r'\{\s*Self::scalar_mul_both::<\s*(true|false)\s*>\(\s*self\s*,\s*le_bits\s*\)\s*\}', re.sub(r'//[^\n]*', '', text), re.S)
                if not mm:
                    raise Untranslatable('not a call of scalar_mul_both::<…>(self, le_bits)')
                body = '  min_scalar_mul_both %s p limbs' % mm.group(1)
                info = dict(file=cfg['file'], fn=cfg['fn'], lines=[l0, l1], sha256=hashlib.sha256(text.encode()).hexdigest())
            else:
                body, info = translate(repo, cfg, index)
            info['status'] = 'translated'
        except (Untranslatable, IndexError, ValueError, OSError) as ex:
            body = '  ' + cfg['fallback']
            if cfg.get('oursqrt'):                 # the helper definitions the lemma file refers to, in their model form
                parts.append('def min_our_sqrt_inner (b : Nat) : Nat :=\n  (fmul q b b)\n')
                parts.append('def min_our_sqrt_step (i : Nat) (z t b c : Nat) : Nat × Nat × Nat × Nat :=\n'
                             '  let bb := (List.range (i - 2)).foldl (fun b _ => min_our_sqrt_inner b) b\n'
                             '  ((if (!(bb == 1)) then (fmul q z c) else z), (if (!(bb == 1)) then (fmul q t (fmul q c c)) else t), '
                             '(if (!(bb == 1)) then (fmul q t (fmul q c c)) else t), (fmul q c c))\n')
            info['status'] = 'untranslated'
            info['reason'] = '%s: %s' % (type(ex).__name__, ex)
        report[cfg['name']] = info
        doc = '%s `%s`' % (cfg['file'], cfg['fn'])
        if info.get('lines'):
            doc += ' lines %d-%d' % tuple(info['lines'])
        if info['status'] != 'translated':
            doc += ' — UNTRANSLATED (%s): falls back to the hand model' % info['reason'].replace('-/', '- /')
        parts.append('/-- %s -/' % doc)
        parts.append('def %s %s : %s :=\n%s\n' % (cfg['name'], cfg['params'], cfg['lean_ret'], body))
        if cfg.get('powloop'):
            loop = cfg['powloop'] if isinstance(cfg['powloop'], str) else 'min_pow_le_limbs'
            parts.append('/-- the loop skeleton of `%s`: `for limb in limbs { for i in 0..64 { step } }` from (ONE, *self), result `acc` -/' % cfg['fn'])
            parts.append('def %s (x : Nat) (limbs : List Nat) : Nat :=\n'
                         '  (limbs.foldl (fun st limb => (List.range 64).foldl (fun st i => %s limb i st.1 st.2) st) (1, x)).1\n' % (loop, cfg['name']))
        if cfg['name'] == 'min_neg':
            parts.append('/-- the translated addition / doubling of the minimal backend on `Ext` values -/')
            parts.append('def addG (a b : Ext) : Ext := min_add a.X a.Y a.Z a.T b.X b.Y b.Z b.T')
            parts.append('def dblG (a : Ext) : Ext := min_double a.X a.Y a.Z a.T\n')
        if cfg.get('ladder'):
            parts.append('/-- the loop skeleton of `scalar_mul_both`: `for limb in le_bits { for i in 0..64 { step } }` from (IDENTITY, self), result `acc` -/')
            parts.append('def min_scalar_mul_both (CT : Bool) (p : Ext) (limbs : List Nat) : Ext :=\n'
                         '  (limbs.foldl (fun st limb => (List.range 64).foldl (fun st i => min_scalar_mul_step CT limb i st.1 st.2) st)\n'
                         '    (extLit Gen.min_curve_element.Element.IDENTITY, p)).1\n')
    parts.append('end Gen.Formulas')
    text = '\n'.join(parts) + '\n'
    old = open(out).read() if os.path.exists(out) else None
    if old != text:
        open(out, 'w').write(text)
    json.dump(report, open(os.path.splitext(out)[0] + '.index.json', 'w'), indent=1, sort_keys=True)
    bad = [k for k, v in report.items() if v['status'] != 'translated']
    print('formulas: %d translated, %d untranslated %s' % (len(report) - len(bad), len(bad), bad))


if __name__ == '__main__':
    main()
