#!/usr/bin/env python3
"""Translator: the lazily evaluated variable of src/ark_curve/r1cs/lazy.rs -> Lean.

Re-run on every check.  `LazyElementVar::element` and `LazyElementVar::encoding` are located, parsed, and executed
symbolically once for each of the three states of `Inner` (`Encoding(s)`, `Element(p)`, `EncodingAndElement{s, p}`): the
`RefCell` is the current symbolic state, `matches!(&*self.inner.borrow(), Inner::X(_))` and `match &*self.inner.borrow()
{…}` are decided by the state's constructor, `*self.inner.borrow_mut() = …` / `self.inner.replace(…)` is the state update,
`self.encoding()?` / `self.element()?` is the other body executed in the current state, `ElementVar::decompress_from_field(e)?`
and `p.compress_to_field()?` are the two gadgets (the translated-and-proved `R1cs.decompress` / `R1cs.compress`, with the
hint), `.clone()` is the identity, `unreachable!` on the executed path is outside the grammar.

Output: lean/Decaf/Generated/Lazy.lean — `Gen.Lazy.element`, `Gen.Lazy.encoding : R1cs.Lazy → R1cs.Hint → new state × gadget
emitted × satisfied × value returned` — and Lazy.index.json.  Lemmas/Formulas/Lazy.lean proves both equal to the hand model's
`Lazy.step` (with the value returned equal to the component of the new state), on which C13's `lazy_*` theorems stand.
A body outside this grammar (or a path emitting more than one gadget) falls back to the hand model: no alarm, recorded as
untranslated, tie = correspondence only.
"""
import os, re, sys, json

sys.path.insert(0, os.path.dirname(os.path.abspath(__file__)))
from extract_constants import tokenize  # noqa: E402
from extract_formulas import Untranslatable  # noqa: E402

REL = 'src/ark_curve/r1cs/lazy.rs'


class LP:
    def __init__(self, toks):
        self.t, self.i = toks, 0

    def peek(self, k=0):
        return self.t[self.i + k] if self.i + k < len(self.t) else ('eof', '')

    def at(self, v, k=0):
        return self.peek(k)[1] == v and self.peek(k)[0] != 'str'

    def eat(self, v=None):
        tok = self.peek()
        if v is not None and tok[1] != v:
            raise Untranslatable('expected %r, found %r' % (v, tok[1]))
        self.i += 1
        return tok

    def block(self):
        self.eat('{')
        out = []
        while not self.at('}'):
            out.append(self.stmt())
        self.eat('}')
        return out

    def stmt(self):
        if self.at('let'):
            self.eat()
            if self.at('mut'):
                self.eat()
            name = self.eat()[1]
            if self.at(':'):
                self.eat()
                while not self.at('='):
                    self.eat()
            self.eat('=')
            e = self.expr()
            self.eat(';')
            return ('let', name, e)
        if self.at('return'):
            self.eat()
            e = self.expr()
            if self.at(';'):
                self.eat()
            return ('return', e)
        if self.at('if'):
            self.eat()
            c = self.expr()
            b = self.block()
            els = None
            if self.at('else'):
                self.eat()
                els = self.block()
            return ('if', c, b, els)
        if self.at('*') and self.cell_at(1, 'borrow_mut'):
            self.eat()
            self.cell('borrow_mut')
            self.eat('=')
            e = self.expr()
            self.eat(';')
            return ('set', e)
        e = self.expr()
        if self.at(';'):
            self.eat()
            return ('exprstmt', e)
        return ('tail', e)

    def cell_at(self, k, method):
        seq = ['self', '.', 'inner', '.', method, '(', ')']
        return all(self.peek(k + j)[1] == s for j, s in enumerate(seq))

    def cell(self, method):
        for s in ['self', '.', 'inner', '.', method, '(', ')']:
            self.eat(s)

    def path(self):
        parts = [self.eat()[1]]
        while self.at('::'):
            self.eat()
            parts.append(self.eat()[1])
        return parts

    def scrutinee(self):
        """`&*self.inner.borrow()` (any number of & and *), or a plain name"""
        j = 0
        while self.peek(j)[1] in ('&', '*'):
            j += 1
        if self.cell_at(j, 'borrow'):
            for _ in range(j):
                self.eat()
            self.cell('borrow')
            return ('state',)
        return self.expr()

    def pattern(self):
        alts = [self.pattern1()]
        while self.at('|'):
            self.eat()
            alts.append(self.pattern1())
        return alts

    def pattern1(self):
        if self.at('_'):
            self.eat()
            return ('wild',)
        p = self.path()
        ctor = p[-1]
        if self.at('('):
            self.eat()
            args = []
            while not self.at(')'):
                if self.at('ref'):
                    self.eat()
                args.append(self.eat()[1])
                if self.at(','):
                    self.eat()
            self.eat(')')
            return ('ctor', ctor, args)
        if self.at('{'):
            self.eat()
            binds = {}
            while not self.at('}'):
                if self.at('.'):
                    self.eat(); self.eat('.')
                    continue
                f = self.eat()[1]
                v = f
                if self.at(':'):
                    self.eat()
                    v = self.eat()[1]
                binds[f] = v
                if self.at(','):
                    self.eat()
            self.eat('}')
            return ('sctor', ctor, binds)
        if len(p) == 1:
            return ('bind', ctor)
        return ('ctor', ctor, [])

    def expr(self):
        e = self.primary()
        while True:
            if self.at('?'):
                self.eat()
                e = ('try', e)
            elif self.at('.') and self.peek(1)[0] == 'id' and self.at('(', 2):
                self.eat()
                name = self.eat()[1]
                self.eat('(')
                args = []
                while not self.at(')'):
                    args.append(self.expr())
                    if self.at(','):
                        self.eat()
                self.eat(')')
                e = ('method', e, name, args)
            else:
                return e

    def primary(self):
        if self.at('&') or self.at('*'):
            self.eat()
            return self.primary()
        if self.at('('):
            self.eat()
            e = self.expr()
            self.eat(')')
            return e
        if self.at('{'):
            return ('block', self.block())
        if self.at('match'):
            self.eat()
            scr = self.scrutinee()
            self.eat('{')
            arms = []
            while not self.at('}'):
                pat = self.pattern()
                self.eat('=>')
                if self.at('return'):
                    self.eat()
                    body = ('ret', self.expr())
                else:
                    body = self.expr()
                arms.append((pat, body))
                if self.at(','):
                    self.eat()
            self.eat('}')
            return ('match', scr, arms)
        if self.peek()[0] != 'id':
            raise Untranslatable('expression starting with %r' % self.peek()[1])
        p = self.path()
        if self.at('!'):
            self.eat()
            name = p[-1]
            self.eat('(')
            if name == 'matches':
                scr = self.scrutinee()
                self.eat(',')
                pat = self.pattern()
                self.eat(')')
                return ('matches', scr, pat)
            depth = 1
            while depth:
                t = self.eat()
                if t[0] == 'eof':
                    raise Untranslatable('macro')
                depth += (t[1] == '(' and t[0] != 'str') - (t[1] == ')' and t[0] != 'str')
            if name in ('unreachable', 'panic', 'unimplemented', 'todo'):
                return ('panic',)
            raise Untranslatable('macro %s!' % name)
        if p == ['self'] and self.at('.') and self.peek(1)[1] == 'inner' and self.at('.', 2) and self.peek(3)[1] == 'replace':
            for s in ['.', 'inner', '.', 'replace', '(']:
                self.eat(s)
            e = self.expr()
            self.eat(')')
            return ('replace', e)
        if self.at('(') and len(p) >= 1 and (p[-1][0].isupper() or len(p) > 1):
            self.eat()
            args = []
            while not self.at(')'):
                args.append(self.expr())
                if self.at(','):
                    self.eat()
            self.eat(')')
            return ('call', p, args)
        if self.at('{') and p[-1][0].isupper():
            self.eat()
            fields = {}
            while not self.at('}'):
                f = self.eat()[1]
                v = ('name', f)
                if self.at(':'):
                    self.eat()
                    v = self.expr()
                fields[f] = v
                if self.at(','):
                    self.eat()
            self.eat('}')
            return ('struct', p, fields)
        if len(p) == 1:
            return ('name', p[0])
        raise Untranslatable('path %s' % '::'.join(p))


class Return(Exception):
    def __init__(self, v):
        self.v = v


class Exec:
    """values: ('enc', s) | ('elem', x, y) | ('ok', v) | ('err', v) | ('st', state) | ('unit',) | ('bool', b) | ('panic',)"""

    def __init__(self, bodies, state):
        self.bodies = bodies
        self.state = state
        self.emitted = []     # list of (kind, Lean binder name, Lean rhs)
        self.depth = 0

    def call(self, name):
        self.depth += 1
        if self.depth > 4:
            raise Untranslatable('recursion between element() and encoding()')
        try:
            try:
                v = self.block(self.bodies[name], {})
            except Return as r:
                v = r.v
        finally:
            self.depth -= 1
        return v

    def block(self, stmts, env):
        env = dict(env)
        val = ('unit',)
        for s in stmts:
            k = s[0]
            if k == 'let':
                env[s[1]] = self.ev(s[2], env)
            elif k == 'return':
                raise Return(self.ev(s[1], env))
            elif k == 'if':
                c = self.ev(s[1], env)
                if c[0] != 'bool':
                    raise Untranslatable('condition')
                if c[1]:
                    val = self.block(s[2], env)
                elif s[3] is not None:
                    val = self.block(s[3], env)
            elif k == 'set':
                self.set_state(self.ev(s[1], env))
            elif k == 'exprstmt':
                self.ev(s[1], env)
                val = ('unit',)
            elif k == 'tail':
                val = self.ev(s[1], env)
        return val

    def set_state(self, v):
        if v[0] != 'st':
            raise Untranslatable('state update with %s' % v[0])
        self.state = v[1]

    def match_pat(self, alts, v, env):
        for pat in alts:
            k = pat[0]
            if k == 'wild':
                return dict(env)
            if k == 'bind':
                return dict(env, **{pat[1]: v})
            if v[0] == 'st':
                st = v[1]
                if k == 'ctor' and pat[1] == 'Encoding' and st[0] == 'enc' and len(pat[2]) == 1:
                    return dict(env, **({} if pat[2][0] == '_' else {pat[2][0]: ('enc', st[1])}))
                if k == 'ctor' and pat[1] == 'Element' and st[0] == 'elem' and len(pat[2]) == 1:
                    return dict(env, **({} if pat[2][0] == '_' else {pat[2][0]: ('elem', st[1], st[2])}))
                if k == 'sctor' and pat[1] == 'EncodingAndElement' and st[0] == 'both':
                    e2 = dict(env)
                    for f, name in pat[2].items():
                        if f == 'encoding':
                            e2[name] = ('enc', st[1])
                        elif f == 'element':
                            e2[name] = ('elem', st[2], st[3])
                        else:
                            raise Untranslatable('field %s' % f)
                    return e2
            if v[0] in ('ok', 'err') and k == 'ctor' and len(pat[2]) == 1 and pat[1] == {'ok': 'Ok', 'err': 'Err'}[v[0]]:
                return dict(env, **({} if pat[2][0] == '_' else {pat[2][0]: v[1]}))
        return None

    def ev(self, e, env):
        k = e[0]
        if k == 'name':
            if e[1] in env:
                return env[e[1]]
            raise Untranslatable('name %s' % e[1])
        if k == 'state':
            return ('st', self.state)
        if k == 'panic':
            raise Untranslatable('panic on an executed path')
        if k == 'block':
            return self.block(e[1], env)
        if k == 'matches':
            v = self.ev(e[1], env)
            return ('bool', self.match_pat(e[2], v, env) is not None)
        if k == 'match':
            v = self.ev(e[1], env)
            for pat, body in e[2]:
                env2 = self.match_pat(pat, v, env)
                if env2 is not None:
                    if body[0] == 'ret':
                        raise Return(self.ev(body[1], env2))
                    return self.ev(body, env2)
            raise Untranslatable('no arm matches')
        if k == 'try':
            v = self.ev(e[1], env)
            if v[0] == 'ok':
                return v[1]
            raise Untranslatable('? on %s' % v[0])
        if k == 'replace':
            self.set_state(self.ev(e[1], env))
            return ('unit',)
        if k == 'struct' and e[1][-1] == 'EncodingAndElement' and set(e[2]) == {'encoding', 'element'}:
            a, b = self.ev(e[2]['encoding'], env), self.ev(e[2]['element'], env)
            if a[0] == 'enc' and b[0] == 'elem':
                return ('st', ('both', a[1], b[1], b[2]))
            raise Untranslatable('EncodingAndElement of %s, %s' % (a[0], b[0]))
        if k == 'call':
            f = e[1]
            args = [self.ev(a, env) for a in e[2]]
            if f[-1] in ('Ok', 'Err') and len(args) == 1:
                return ('ok' if f[-1] == 'Ok' else 'err', args[0])
            if f[-1] == 'Encoding' and len(args) == 1 and args[0][0] == 'enc':
                return ('st', ('enc', args[0][1]))
            if f[-1] == 'Element' and len(f) > 1 and len(args) == 1 and args[0][0] == 'elem':
                return ('st', ('elem', args[0][1], args[0][2]))
            if f[-1] == 'decompress_from_field' and len(args) == 1 and args[0][0] == 'enc':
                n = 'd%d' % len(self.emitted)
                self.emitted.append(('decompress', n, 'R1cs.decompress %s h' % args[0][1]))
                return ('ok', ('elem', '%s.2.1' % n, '%s.2.2' % n))
            raise Untranslatable('call of %s' % '::'.join(f))
        if k == 'method':
            name = e[2]
            if e[1] == ('name', 'self') and name in ('element', 'encoding') and not e[3]:
                return ('ok', self.call(name)) if False else self.call(name)
            v = self.ev(e[1], env)
            if name in ('clone', 'borrow', 'to_owned') and not e[3]:
                return v
            if name == 'compress_to_field' and v[0] == 'elem' and not e[3]:
                n = 'c%d' % len(self.emitted)
                self.emitted.append(('compress', n, 'R1cs.compress %s %s h' % (v[1], v[2])))
                return ('ok', ('enc', '%s.2' % n))
            raise Untranslatable('method .%s on %s' % (name, v[0]))
        raise Untranslatable('expression %s' % k)


def find_fn(src, name):
    m = re.search(r'\bpub\s+fn\s+%s\s*\(\s*&self\s*\)[^{]*\{' % name, src)
    if not m:
        raise Untranslatable('fn %s not found' % name)
    depth, j = 1, m.end()
    while depth:
        depth += src[j] == '{'
        depth -= src[j] == '}'
        j += 1
    return src[m.end() - 1:j]


STATES = [('enc', '.enc s', ('enc', 's')), ('elem', '.elem x y', ('elem', 'x', 'y')), ('both', '.both s x y', ('both', 's', 'x', 'y'))]


def lean_state(st):
    return '(R1cs.Lazy.%s %s)' % (st[0], ' '.join(st[1:]))


def translate(src, which):
    impl = src.split('#[cfg(test)]')[0]
    bodies = {n: LP(tokenize(find_fn(impl, n))).block() for n in ('element', 'encoding')}
    arms = []
    for _, pat, st in STATES:
        ex = Exec(bodies, st)
        v = ex.call(which)
        if v[0] != 'ok':
            raise Untranslatable('%s() in state %s returns %s' % (which, st[0], v[0]))
        v = v[1]
        if which == 'element':
            if v[0] != 'elem':
                raise Untranslatable('element() returns %s' % v[0])
            val = '(%s, %s)' % (v[1], v[2])
        else:
            if v[0] != 'enc':
                raise Untranslatable('encoding() returns %s' % v[0])
            val = v[1]
        if len(ex.emitted) > 1:
            raise Untranslatable('%d gadgets on one path' % len(ex.emitted))
        if ex.emitted:
            kind, n, rhs = ex.emitted[0]
            arms.append('  | %s => let %s := %s; (%s, R1cs.Emitted.%s, %s.1, %s)' % (pat, n, rhs, lean_state(ex.state), kind, n, val))
        else:
            arms.append('  | %s => (%s, R1cs.Emitted.nothing, true, %s)' % (pat, lean_state(ex.state), val))
    return '\n'.join(arms)


FALLBACK = {
    'element': '  | st => let r := st.step .elem h; (r.1, r.2.1, r.2.2, r.1.elemVal.getD (0, 0))',
    'encoding': '  | st => let r := st.step .enc h; (r.1, r.2.1, r.2.2, r.1.encVal.getD 0)',
}
TYPES = {'element': 'Nat × Nat', 'encoding': 'Nat'}


def main():
    repo, out = sys.argv[1], sys.argv[2]
    report = {'functions': {}}
    parts = ['/- GENERATED by translator/extract_lazy.py from %s; do not edit. -/' % REL, 'import Decaf.Model.R1cs', '',
             'namespace Gen.Lazy', 'open Model', '']
    try:
        src = open(os.path.join(repo, REL)).read()
    except OSError as ex:
        src = None
        err = str(ex)
    for which in ('element', 'encoding'):
        try:
            if src is None:
                raise Untranslatable(err)
            body = translate(src, which)
            m = re.search(r'\bpub\s+fn\s+%s\s*\(' % which, src)
            l0 = src[:m.start()].count('\n') + 1
            report['functions']['lazy_' + which] = {'status': 'translated', 'file': REL, 'fn': which,
                                                    'lines': [l0, l0 + find_fn(src, which).count('\n')]}
            parts.append('/-- `LazyElementVar::%s` executed in each of the three states: new state, gadget emitted, satisfied, value returned -/' % which)
        except (Untranslatable, IndexError, KeyError, TypeError) as ex:
            body = FALLBACK[which]
            report['functions']['lazy_' + which] = {'status': 'untranslated', 'reason': str(ex), 'file': REL, 'fn': which}
            parts.append('/-- `LazyElementVar::%s` is outside the translator\'s grammar (%s): the hand model stands in (tie: correspondence only) -/'
                         % (which, str(ex).replace('-/', '- /')))
        parts.append('def %s (st : R1cs.Lazy) (h : R1cs.Hint) : R1cs.Lazy × R1cs.Emitted × Bool × (%s) :=\n  match st with\n%s\n' % (which, TYPES[which], body))
    parts.append('end Gen.Lazy')
    text = '\n'.join(parts) + '\n'
    old = open(out).read() if os.path.exists(out) else None
    if old != text:
        open(out, 'w').write(text)
    json.dump(report, open(os.path.splitext(out)[0] + '.index.json', 'w'), indent=1, sort_keys=True)
    n = sum(1 for v in report['functions'].values() if v['status'] == 'translated')
    print('lazy: %d translated, %d untranslated %s' % (n, 2 - n, [k + ': ' + v.get('reason', '') for k, v in report['functions'].items() if v['status'] != 'translated']))


if __name__ == '__main__':
    main()
