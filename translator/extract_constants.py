#!/usr/bin/env python3
"""Translator: Rust literals of /repo (and of the reference arkworks crates) -> Lean definitions.

Re-run on every check.  It is deliberately dumb: it tokenises every non-fiat source file, finds every
`const` / `static` item (at any nesting, remembering the enclosing `impl … for …` header), parses
the initialiser with a tiny expression grammar (integers, arrays, `&`, paths, calls, struct
literals, `MontFp!("…")`, `Lazy::new(|| …)` closures containing one such literal), resolves paths to
other constants (`Self::X`, `Fp::MINUS_ONE`, `G1_GENERATOR_X`, …) by *inlining* the referenced value,
and writes one Lean `def` of type `Lit` per item.  Nothing is evaluated and no value is stored
anywhere else: the Lean theorems are stated over these generated definitions.

Usage: extract_constants.py <repo> <out.lean> [--ref <cargo registry src dir>]
Writes the file only when its content changed (keeps lake's incremental build incremental).
"""
import os, re, sys, json, glob, hashlib

TOK = re.compile(r"""
    (?P<ws>\s+|//[^\n]*|/\*.*?\*/)
  | (?P<str>"(?:[^"\\]|\\.)*")
  | (?P<num>0[xX][0-9a-fA-F_]+(?:[ui](?:8|16|32|64|128|size))?|0[bB][01_]+(?:[ui](?:8|16|32|64|128|size))?|0[oO][0-7_]+(?:[ui](?:8|16|32|64|128|size))?|[0-9][0-9_]*(?:[ui](?:8|16|32|64|128|size))?)
  | (?P<life>'[A-Za-z_][A-Za-z0-9_]*(?!'))
  | (?P<chr>'(?:[^'\\]|\\.)')
  | (?P<id>[A-Za-z_][A-Za-z0-9_]*)
  | (?P<op>::|->|=>|==|!=|<=|>=|&&|\|\||<<|>>|[-+*/%^!&|=<>@.,;:#$?~\[\](){}])
""", re.X | re.S)


def tokenize(src):
    out = []
    pos = 0
    while pos < len(src):
        m = TOK.match(src, pos)
        if not m:
            pos += 1
            continue
        pos = m.end()
        k = m.lastgroup
        if k == 'ws':
            continue
        out.append((k, m.group()))
    return out


class ParseError(Exception):
    pass


class P:
    """expression parser over a token list"""

    def __init__(self, toks):
        self.t = toks
        self.i = 0

    def peek(self, k=0):
        return self.t[self.i + k] if self.i + k < len(self.t) else ('eof', '')

    def eat(self, val=None):
        tok = self.peek()
        if val is not None and tok[1] != val:
            raise ParseError(f"expected {val} got {tok}")
        self.i += 1
        return tok

    def expr(self):
        lhs = self.unary()
        while self.peek()[1] in ('+', '-', '*', '/', '<<', '>>', '|', '%'):
            op = self.eat()[1]
            rhs = self.unary()
            lhs = ('binop', op, lhs, rhs)
        return lhs

    def unary(self):
        tok = self.peek()
        if tok[1] == '&':
            self.eat()
            if self.peek()[0] == 'life':
                self.eat()
            return self.unary()
        if tok[1] == '*':
            self.eat()
            return self.unary()
        if tok[1] == '-':
            self.eat()
            return ('neg', self.unary())
        return self.postfix()

    def postfix(self):
        e = self.atom()
        while True:
            tok = self.peek()
            if tok[1] == '.':
                self.eat()
                name = self.eat()[1]
                if self.peek()[1] == '(':
                    args = self.args('(', ')')
                    e = ('method', name, e, args)
                else:
                    e = ('field', name, e)
            elif tok[1] == 'as':
                self.eat()
                self.path()
            else:
                return e

    def args(self, o, c):
        self.eat(o)
        xs = []
        while self.peek()[1] != c:
            xs.append(self.expr())
            if self.peek()[1] == ',':
                self.eat()
        self.eat(c)
        return xs

    def path(self):
        segs = [self.eat()[1]]
        while self.peek()[1] == '::':
            self.eat()
            if self.peek()[1] == '<':
                self.skip_angles()
                continue
            segs.append(self.eat()[1])
        if self.peek()[1] == '<' and segs[-1][:1].isupper() and self.looks_generic():
            self.skip_angles()
            while self.peek()[1] == '::':
                self.eat()
                segs.append(self.eat()[1])
        return segs

    def looks_generic(self):
        # `Fp2<F2Config>::new` style only in types; in expressions we only see `::<…>`
        return False

    def skip_angles(self):
        d = 0
        while True:
            v = self.eat()[1]
            if v == '<':
                d += 1
            elif v == '>':
                d -= 1
            elif v == '>>':
                d -= 2
            if d <= 0:
                return

    def atom(self):
        k, v = self.peek()
        if k == 'num':
            self.eat()
            s = re.sub(r'[ui](8|16|32|64|128|size)$', '', v).replace('_', '')
            return ('int', int(s, 0) if s[:2].lower() in ('0x', '0b', '0o') else int(s))
        if k == 'str':
            self.eat()
            return ('str', v[1:-1])
        if v == '[':
            self.eat()
            xs = []
            if self.peek()[1] == ']':
                self.eat()
                return ('arr', xs)
            first = self.expr()
            if self.peek()[1] == ';':
                self.eat()
                n = self.expr()
                self.eat(']')
                return ('rep', first, n)
            xs.append(first)
            while self.peek()[1] == ',':
                self.eat()
                if self.peek()[1] == ']':
                    break
                xs.append(self.expr())
            self.eat(']')
            return ('arr', xs)
        if v == '(':
            xs = self.args('(', ')')
            return xs[0] if len(xs) == 1 else ('tuple', xs)
        if v == '||':
            self.eat()
            return ('closure', self.expr())
        if v == '{':
            # block: `{ let a: T = EXPR; a.into() }`  -> value of the (single) let, else last expr
            self.eat()
            lets = {}
            last = None
            while self.peek()[1] != '}':
                if self.peek()[1] == 'let':
                    self.eat()
                    if self.peek()[1] == 'mut':
                        self.eat()
                    name = self.eat()[1]
                    if self.peek()[1] == ':':
                        self.eat()
                        self.skip_type_until('=')
                    self.eat('=')
                    lets[name] = self.expr()
                    self.eat(';')
                else:
                    last = self.expr()
                    if self.peek()[1] == ';':
                        self.eat()
            self.eat('}')
            return ('block', lets, last)
        if k == 'id':
            segs = self.path()
            if self.peek()[1] == '!':
                self.eat()
                a = self.args('(', ')')
                return ('macro', segs, a)
            if self.peek()[1] == '(':
                a = self.args('(', ')')
                return ('call', segs, a)
            if self.peek()[1] == '{' and segs[-1][:1].isupper():
                self.eat('{')
                fs = []
                while self.peek()[1] != '}':
                    fname = self.eat()[1]
                    self.eat(':')
                    fs.append((fname, self.expr()))
                    if self.peek()[1] == ',':
                        self.eat()
                self.eat('}')
                return ('struct', segs, fs)
            return ('path', segs)
        raise ParseError(f"unexpected token {k} {v!r}")

    def skip_type_until(self, stop):
        d = 0
        while True:
            v = self.peek()[1]
            if v == stop and d == 0:
                return
            if v in '<([':
                d += 1
            elif v in '>)]':
                d -= 1
            self.eat()


def find_items(path):
    """yield (ctx, name, type_text, expr_tokens) for every const/static item outside test modules"""
    src = open(path).read()
    toks = tokenize(src)
    items = []
    ctx_stack = []  # (brace_depth_at_open, ctx string, is_test)
    depth = 0
    i = 0
    pending_ctx = None
    pending_test = False
    n = len(toks)
    while i < n:
        k, v = toks[i]
        if v == '#' and i + 1 < n and toks[i + 1][1] == '[':
            # attribute: detect cfg(test) / cfg(all(test
            j = i + 2
            d = 1
            txt = []
            while j < n and d > 0:
                if toks[j][1] == '[':
                    d += 1
                elif toks[j][1] == ']':
                    d -= 1
                txt.append(toks[j][1])
                j += 1
            t = ''.join(txt)
            if t.startswith('cfg(') and 'test' in t:
                pending_test = True
            i = j
            continue
        if v in ('impl', 'mod', 'trait', 'fn') and k == 'id':
            # header up to '{' or ';'
            j = i + 1
            hdr = []
            d = 0
            while j < n and not (toks[j][1] in ('{', ';') and d == 0):
                if toks[j][1] in '([':
                    d += 1
                elif toks[j][1] in ')]':
                    d -= 1
                hdr.append(toks[j][1])
                j += 1
            if j < n and toks[j][1] == '{':
                if v == 'impl':
                    h = [x for x in hdr]
                    # strip leading generics
                    if h and h[0] == '<':
                        d2 = 0
                        while h:
                            x = h.pop(0)
                            if x == '<':
                                d2 += 1
                            elif x == '>':
                                d2 -= 1
                                if d2 == 0:
                                    break
                    ids = [x for x in h if re.match(r'[A-Za-z_]', x) and x not in ('for', 'where')]
                    if 'for' in h:
                        fi = h.index('for')
                        tr = [x for x in h[:fi] if re.match(r'[A-Za-z_]', x)]
                        ty = [x for x in h[fi + 1:] if re.match(r'[A-Za-z_]', x)]
                        # last path segment of the trait (before generics), first ident chain of target
                        trn = trait_name(h[:fi])
                        tyn = trait_name(h[fi + 1:])
                        name = f"{trn}_{tyn}"
                    else:
                        name = trait_name(h)
                    pending_ctx = ('impl', name)
                elif v == 'mod':
                    pending_ctx = ('mod', hdr[0] if hdr else '?')
                    if hdr and hdr[0] in ('tests', 'test', 'proptests'):
                        pending_test = True
                else:
                    pending_ctx = (v, hdr[0] if hdr else '?')
                i = j
                continue
            i = j + 1
            pending_test = False
            continue
        if v == '{':
            depth += 1
            if pending_ctx is not None:
                ctx_stack.append((depth, pending_ctx, pending_test or any(c[2] for c in ctx_stack)))
                pending_ctx = None
                pending_test = False
            i += 1
            continue
        if v == '}':
            if ctx_stack and ctx_stack[-1][0] == depth:
                ctx_stack.pop()
            depth -= 1
            i += 1
            continue
        if k == 'id' and v in ('const', 'static') and i + 2 < n and toks[i + 1][0] == 'id' \
                and toks[i + 1][1] not in ('fn', 'unsafe') and toks[i + 2][1] == ':':
            name = toks[i + 1][1]
            j = i + 3
            d = 0
            ty = []
            while j < n:
                x = toks[j][1]
                if x == '=' and d == 0:
                    break
                if x in '<([':
                    d += 1
                elif x in '>)]':
                    d -= 1
                elif x == '>>':
                    d -= 2
                elif x == ';' and d == 0:
                    break
                ty.append(x)
                j += 1
            if j >= n or toks[j][1] != '=':
                i = j
                continue
            j += 1
            d = 0
            ex = []
            while j < n:
                x = toks[j][1]
                if x == ';' and d == 0:
                    break
                if x in '([{':
                    d += 1
                elif x in ')]}':
                    d -= 1
                ex.append(toks[j])
                j += 1
            in_test = pending_test or any(c[2] for c in ctx_stack)
            pending_test = False
            impl_ctx = [c[1][1] for c in ctx_stack if c[1][0] == 'impl']
            fn_ctx = [c[1][1] for c in ctx_stack if c[1][0] == 'fn']
            if not in_test:
                items.append((impl_ctx[-1] if impl_ctx else 'top', fn_ctx[-1] if fn_ctx else None,
                              name, ' '.join(ty), ex))
            i = j + 1
            continue
        if v not in ('pub', '(', ')', 'crate') :
            pending_test = pending_test and v in ('pub', 'crate', '(', ')')
        i += 1
    return items


def trait_name(hdr_tokens):
    """first path in the header, generics dropped: `core::iter::Sum<&'a Fq>` -> Sum ; `Fq` -> Fq"""
    out = []
    d = 0
    for x in hdr_tokens:
        if x == '<':
            d += 1
        elif x == '>':
            d -= 1
        elif d == 0 and re.match(r'[A-Za-z_]', x) and x not in ('dyn', 'where'):
            out.append(x)
        elif d == 0 and x == 'where':
            break
    return out[-1] if out else '?'


# ------------------------------------------------------------------------------------------------
# lowering of parsed expressions to Lit

class Lower:
    def __init__(self, table, file_id, ctx, build, cur=None):
        self.table = table  # (TypeOrTop, NAME) -> list of (file_id, build, expr, ctx)
        self.file_id = file_id
        self.ctx = ctx
        self.build = build
        self.depth = 0
        self.cur = cur  # the item being lowered (never resolve a path to itself)

    def self_type(self):
        c = self.ctx
        return c.split('_')[-1] if '_' in c else c

    def lookup(self, ty, name):
        cands = self.table.get((ty, name), [])
        # prefer same file, then same build, then shared
        best = None
        for c in cands:
            if self.cur is not None and c is self.cur:
                continue
            # ties between same-named items of sibling modules (fq / fr / fp) go to the nearest module
            near = len(os.path.commonprefix([c['file_id'], self.file_id])) / 1000.0
            score = (c['ctx'] == ty) * 8 + (c['file_id'] == self.file_id) * 4 + (c['build'] == self.build) * 2 + (c['build'] == 'both') + near
            if c['build'] not in (self.build, 'both') and self.build != 'both':
                continue
            if best is None or score > best[0]:
                best = (score, c)
        return best[1] if best else None

    def low(self, e):
        self.depth += 1
        if self.depth > 40:
            return 'Lit.unknown'
        try:
            return self._low(e)
        finally:
            self.depth -= 1

    def _low(self, e):
        k = e[0]
        if k == 'int':
            return f"Lit.nat {e[1]}"
        if k == 'arr':
            return "Lit.arr [" + ", ".join(self.low(x) for x in e[1]) + "]"
        if k == 'rep':
            n = e[2]
            if n[0] == 'int':
                return "Lit.arr [" + ", ".join([self.low(e[1])] * n[1]) + "]"
            return f"Lit.tup 900 [{self.low(e[1])}]"
        if k == 'tuple':
            return "Lit.tup 1 [" + ", ".join(self.low(x) for x in e[1]) + "]"
        if k == 'closure':
            return self.low(e[1])
        if k == 'block':
            lets, last = e[1], e[2]
            if len(lets) == 1:
                return self.low(list(lets.values())[0])
            return self.low(last) if last else 'Lit.unknown'
        if k == 'macro':
            name = e[1][-1]
            if name == 'MontFp' and e[2] and e[2][0][0] == 'str':
                s = e[2][0][1]
                if s.startswith('-'):
                    return f"Lit.negdec {int(s[1:])}"
                return f"Lit.dec {int(s)}"
            return 'Lit.unknown'
        if k == 'method':
            # x.into(), x.pow(..) etc: keep the receiver for `.into()`, otherwise opaque
            if e[1] in ('into', 'clone'):
                return self.low(e[2])
            return 'Lit.unknown'
        if k == 'call':
            segs = e[1]
            fn = segs[-1]
            args = e[2]
            if fn in ('from_montgomery_limbs', 'from_montgomery_limbs_backend') and len(args) == 1 and args[0][0] == 'arr':
                ints = [a[1] for a in args[0][1] if a[0] == 'int']
                if len(ints) == len(args[0][1]):
                    tag = 'mont32' if fn.endswith('backend') else 'mont'
                    return f"Lit.{tag} [" + ", ".join(map(str, ints)) + "]"
            if re.match(r'F[qrp]MontgomeryDomainFieldElement$', fn) and len(args) == 1:
                a = args[0]
                if a[0] == 'arr' and all(x[0] == 'int' for x in a[1]):
                    return "Lit.mont32 [" + ", ".join(str(x[1]) for x in a[1]) + "]"
                if a[0] == 'rep' and a[1][0] == 'int':
                    return "Lit.zero" if a[1][1] == 0 else 'Lit.unknown'
            if fn in ('Self', 'BigInt', 'Some', 'from_ark_fq', 'from_ark_fr') or (fn == 'new' and len(segs) >= 2 and segs[-2] in ('Lazy', 'BigInt')) \
                    or (fn == 'new_unchecked' and len(segs) >= 2 and segs[-2].startswith('Arkworks')):
                if len(args) == 1:
                    return self.low(args[0])
            if fn == 'new' and len(segs) >= 2 and segs[-2].startswith('Arkworks') and len(args) == 1:
                # Fp::new(BigInt) converts a *canonical* integer
                return f"Lit.tup 700 [{self.low(args[0])}]"
            if fn == 'one' and segs[-2:-1] == ['BigInt']:
                return "Lit.arr [Lit.nat 1]"
            tags = {('Fp2', 'new'): 2, ('Fp6', 'new'): 6, ('Fp12', 'new'): 12,
                    ('Affine', 'new_unchecked'): 100, ('EdwardsAffine', 'new_unchecked'): 100,
                    ('EdwardsProjective', 'new_unchecked'): 101}
            key = (segs[-2] if len(segs) >= 2 else '', fn)
            mext = re.match(r'F[pq](2|6|12)$', key[0])
            if mext and fn == 'new':
                return f"Lit.tup {mext.group(1)} [" + ", ".join(self.low(x) for x in args) + "]"
            if key in tags:
                return f"Lit.tup {tags[key]} [" + ", ".join(self.low(x) for x in args) + "]"
            return f"Lit.tup 999 [" + ", ".join(self.low(x) for x in args) + "]"
        if k == 'struct':
            name = e[1][-1]
            fs = e[2]
            return "Lit.struct [" + ", ".join(self.low(x) for (_, x) in fs) + "]"
        if k == 'path':
            segs = e[1]
            name = segs[-1]
            if name == 'ZERO' and len(segs) >= 2:
                return 'Lit.zero'
            if name == 'ONE' and len(segs) >= 2:
                return 'Lit.one'
            if name == 'None':
                return 'Lit.arr []'
            if name == 'true':
                return 'Lit.bool true'
            if name == 'false':
                return 'Lit.bool false'
            if name == 'MAX' and segs[0] == 'u64':
                return f"Lit.nat {2**64-1}"
            ty = segs[-2] if len(segs) >= 2 else 'top'
            if ty == 'Self':
                ty = self.self_type()
            c = self.lookup(ty, name) or (self.lookup('top', name) if len(segs) == 1 else None)
            if c is None and len(segs) >= 2:
                # trait constants reached through a type, e.g. OurG1Config::COEFF_A
                for (t, nme), cs in self.table.items():
                    if nme == name and t.endswith('_' + ty):
                        c = cs[0]
                        break
            if c is not None:
                sub = Lower(self.table, c['file_id'], c['ctx'], self.build if c['build'] == 'both' else c['build'], cur=c)
                sub.depth = self.depth
                return sub.low(c['expr'])
            if ty == 'TwistType':
                return f"Lit.nat {1 if name == 'D' else 0}"
            return 'Lit.unknown'
        if k == 'binop':
            # constant folding of plain integer arithmetic (`1 << 47`, `0x12 + 0`, `A * 2`): only when both operands lower
            # to naturals and the result is a natural
            a, b = self.low(e[2]), self.low(e[3])
            ma, mb = re.match(r'^Lit\.nat (\d+)$', a), re.match(r'^Lit\.nat (\d+)$', b)
            if ma and mb:
                x, y = int(ma.group(1)), int(mb.group(1))
                try:
                    v = {'+': lambda: x + y, '-': lambda: x - y, '*': lambda: x * y, '/': lambda: x // y, '%': lambda: x % y,
                         '<<': lambda: x << y if y < 4096 else None, '>>': lambda: x >> y, '|': lambda: x | y}[e[1]]()
                except (ZeroDivisionError, KeyError):
                    v = None
                if v is not None and v >= 0:
                    return f'Lit.nat {v}'
            return 'Lit.unknown'
        if k == 'neg':
            return 'Lit.unknown'
        return 'Lit.unknown'


def build_of(rel):
    if '/u32/' in rel or rel.startswith('src/min_curve'):
        return 'min'
    if '/u64/' in rel or rel.startswith('src/ark_curve') or rel.endswith('/arkworks.rs'):
        return 'ark'
    return 'both'


def collect(root, rels, prefix=''):
    table = {}
    allitems = []
    for rel in rels:
        path = os.path.join(root, rel)
        file_id = prefix + re.sub(r'\.rs$', '', rel).replace('src/', '').replace('/', '_').replace('-', '_').replace('.', '_')
        try:
            items = find_items(path)
        except Exception as ex:  # tolerant: an unparsable file yields no constants (and the theorems fail)
            sys.stderr.write(f"translator: cannot scan {rel}: {ex}\n")
            continue
        for (ctx, fnctx, name, ty, ex) in items:
            try:
                p = P(ex)
                expr = p.expr()
                if p.i != len(ex):
                    raise ParseError(f"trailing tokens at {p.peek()}")
            except (ParseError, IndexError) as err:
                expr = ('unparsed', str(err))
            rec = dict(file_id=file_id, rel=rel, ctx=ctx, fn=fnctx, name=name, ty=ty, expr=expr, build=build_of(rel))
            allitems.append(rec)
            tkey = ctx.split('_')[-1] if ctx != 'top' else 'top'
            table.setdefault((tkey, name), []).append(rec)
            table.setdefault((ctx, name), []).append(rec)
    return table, allitems


def lean_ident(s):
    return re.sub(r'[^A-Za-z0-9_]', '_', s)


def emit(root, ref_root, out_path):
    rels = []
    for dp, dn, fn in os.walk(os.path.join(root, 'src')):
        for f in sorted(fn):
            if f.endswith('.rs') and f != 'fiat.rs':
                rels.append(os.path.relpath(os.path.join(dp, f), root))
    rels.sort()
    table, items = collect(root, rels)
    lines = []
    lines.append("-- GENERATED by /verif/translator/extract_constants.py from /repo's working tree. DO NOT EDIT.")
    lines.append("import Decaf.Model.Lit")
    lines.append("set_option maxRecDepth 100000")
    lines.append("namespace Gen")
    seen = {}
    index = []
    for it in items:
        nm = f"{it['file_id']}.{lean_ident(it['ctx'])}" + (f".{lean_ident(it['fn'])}" if it['fn'] else '') + f".{it['name']}"
        if nm in seen:
            seen[nm] += 1
            nm = f"{nm}_{seen[nm]}"
        else:
            seen[nm] = 1
        lw = Lower(table, it['file_id'], it['ctx'], it['build'], cur=it)
        val = 'Lit.unknown' if it['expr'][0] == 'unparsed' else lw.low(it['expr'])
        lines.append(f"/-- {it['rel']} : {it['ctx']} : {it['name']} : {it['ty'][:80]} -/")
        lines.append(f"def {nm} : Lit := {val}")
        index.append(dict(lean=f"Gen.{nm}", rel=it['rel'], ctx=it['ctx'], name=it['name'], unknown=('Lit.unknown' in val)))
    # reference crates
    if ref_root:
        for crate, files in (("ark-bls12-377-0.4.0", None), ("ark-ed-on-bls12-377-0.4.0", None)):
            croot = os.path.join(ref_root, crate)
            if not os.path.isdir(croot):
                continue
            rrels = []
            for dp, dn, fn in os.walk(os.path.join(croot, 'src')):
                for f in sorted(fn):
                    if f.endswith('.rs') and 'test' not in f and 'constraints' not in dp:
                        rrels.append(os.path.relpath(os.path.join(dp, f), croot))
            rrels.sort()
            pref = 'ref_' + ('bls_' if 'ed-on' not in crate else 'ed_')
            rtable, ritems = collect(croot, rrels, prefix=pref)
            for it in ritems:
                nm = f"{it['file_id']}.{lean_ident(it['ctx'])}.{it['name']}"
                if nm in seen:
                    seen[nm] += 1
                    nm = f"{nm}_{seen[nm]}"
                else:
                    seen[nm] = 1
                lw = Lower(rtable, it['file_id'], it['ctx'], 'both', cur=it)
                val = 'Lit.unknown' if it['expr'][0] == 'unparsed' else lw.low(it['expr'])
                lines.append(f"/-- REFERENCE {crate}/{it['rel']} : {it['ctx']} : {it['name']} -/")
                lines.append(f"def {nm} : Lit := {val}")
                index.append(dict(lean=f"Gen.{nm}", rel=crate + '/' + it['rel'], ctx=it['ctx'], name=it['name'], unknown=('Lit.unknown' in val)))
    lines.append("end Gen")
    text = "\n".join(lines) + "\n"
    old = open(out_path).read() if os.path.exists(out_path) else None
    changed = old != text
    if changed:
        os.makedirs(os.path.dirname(out_path), exist_ok=True)
        with open(out_path, 'w') as f:
            f.write(text)
    idx_path = os.path.splitext(out_path)[0] + '.index.json'
    with open(idx_path, 'w') as f:
        json.dump(dict(sha256=hashlib.sha256(text.encode()).hexdigest(), n=len(index), items=index), f, indent=1)
    return changed, len(index)


if __name__ == '__main__':
    repo = sys.argv[1]
    out = sys.argv[2]
    ref = None
    if '--ref' in sys.argv:
        ref = sys.argv[sys.argv.index('--ref') + 1]
    else:
        c = glob.glob(os.path.expanduser('~/.cargo/registry/src/*/ark-bls12-377-0.4.0'))
        if c:
            ref = os.path.dirname(c[0])
    changed, n = emit(repo, ref, out)
    print(f"translator: {n} constants -> {out} ({'rewritten' if changed else 'unchanged'})")
