import sympy, time
from sympy import factorint
def limbs(l): return sum(x<<(64*i) for i,x in enumerate(l))
q = limbs([725501752471715841,6461107452199829505,6968279316240510977,1345280370688173398])
r = limbs([13356249993388743167,5950279507993463550,10965441865914903552,336320092672043349])
p = limbs([9586122913090633729,1660523435060625408,2230234197602682880,1883307231910630287,14284016967150029115,121098312706494698])
print(hex(q)); print(hex(r)); print(hex(p))
print(sympy.isprime(q), sympy.isprime(r), sympy.isprime(p))
t=time.time(); print("q-1", factorint(q-1), time.time()-t)
t=time.time(); print("r-1", factorint(r-1), time.time()-t, flush=True)
t=time.time(); print("p-1", factorint(p-1), time.time()-t, flush=True)
