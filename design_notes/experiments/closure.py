import sympy as sp
x1,y1,x2,y2,d=sp.symbols('x1 y1 x2 y2 d')
m=x1*x2*y1*y2
Nx=x1*y2+y1*x2; Dx=1+d*m; Ny=y1*y2+x1*x2; Dy=1-d*m
expr=sp.expand(-Nx**2*Dy**2+Ny**2*Dx**2-Dx**2*Dy**2-d*Nx**2*Ny**2)
e=[ -xi**2+yi**2-1-d*xi**2*yi**2 for xi,yi in ((x1,y1),(x2,y2))]
Q,r=sp.reduced(expr,e,x1,y1,x2,y2,d,order='grevlex')
print('closure rem',r,[len(sp.Poly(qq,x1,y1,x2,y2,d).terms()) for qq in Q], len(sp.Poly(expr,x1,y1,x2,y2,d).terms()))
# y-coordinate associativity
x3,y3=sp.symbols('x3 y3')
def parts(xa,ya,xb,yb):
    mm=xa*xb*ya*yb
    return xa*yb+ya*xb, 1+d*mm, ya*yb+xa*xb, 1-d*mm
A,B,C,D=parts(x1,y1,x2,y2); A2,B2,C2,D2=parts(x2,y2,x3,y3)
# y of (P12 + P3): (y12 y3 + x12 x3)/(1 - d x12 x3 y12 y3), x12=A/B, y12=C/D
NL=C*B*y3+A*D*x3; DL=B*D-d*A*C*x3*y3
NR=y1*C2*B2+x1*A2*D2; DR=B2*D2-d*x1*y1*A2*C2
num=sp.expand(NL*DR-NR*DL)
e3=e+[-x3**2+y3**2-1-d*x3**2*y3**2]
Q,r=sp.reduced(num,e3,x1,y1,x2,y2,x3,y3,d,order='grevlex')
print('assoc y rem',r,[len(sp.Poly(qq,x1,y1,x2,y2,x3,y3,d).terms()) for qq in Q])
