import re,glob
def limbs(l): return sum(x<<(64*i) for i,x in enumerate(l))
p=0x1ae3a4617c510eac63b05c06ca1493b1a22d9f300f5138f1ef3622fba094800170b5d44300000008508c00000000001
q=0x12ab655e9a2ca55660b44d1e5c37b00159aa76fed00000010a11800000000001
Rp=pow(1<<384,-1,p); Rq=pow(1<<256,-1,q)
t=open('/repo/src/ark_curve/bls12_377.rs').read()
ours=[]
for m in re.finditer(r'(Fp|Fq)::from_montgomery_limbs\(\[([^\]]*)\]',t,re.S):
    v=limbs([int(x) for x in re.findall(r'\d+',m.group(2))])
    ours.append(v*Rp%p if m.group(1)=='Fp' else v*Rq%q)
D=glob.glob('/root/.cargo/registry/src/*/ark-bls12-377-0.4.0/src')[0]
ref=set()
for f in glob.glob(D+'/**/*.rs',recursive=True):
    for m in re.finditer(r'MontFp!\(\s*"(-?\d+)"\s*\)',open(f).read()):
        v=int(m.group(1)); ref.add(v%p); ref.add(v%q)
print(len(ours),'literals; not found in reference:')
for v in ours:
    if v not in ref: print('  ',v)
# wrapper constants
for f,nm in (('u64','fp/u64/wrapper.rs'),):
    tt=open('/repo/src/fields/'+nm).read()
    for name in ('MINUS_ONE','QUADRATIC_NON_RESIDUE'):
        m=re.search(name+r'[^=]*=\s*Self::from_montgomery_limbs\(\[([^\]]*)\]',tt,re.S)
        v=limbs([int(x) for x in re.findall(r'\d+',m.group(1))])*Rp%p
        print(name,v==p-1, v, pow(v,(p-1)//2,p)==p-1)
tt=open('/repo/src/fields/fp/u32/wrapper.rs').read()
for name in ('ONE','MINUS_ONE','QUADRATIC_NON_RESIDUE'):
    m=re.search(r'pub const '+name+r'[^=]*=\s*Self\(fiat::FpMontgomeryDomainFieldElement\(\[([^\]]*)\]',tt,re.S)
    l=[int(x) for x in re.findall(r'\d+',m.group(1))]
    v=sum(x<<(32*i) for i,x in enumerate(l))*Rp%p
    print('u32',name,v if v<1000 else (v-p))
for fld,mod,n in (('fq',q,8),('fr',0x4aad957a68b2955982d1347970dec005293a3afc43c8afeb95aee9ac33fd9ff,8)):
    tt=open(f'/repo/src/fields/{fld}/u32/wrapper.rs').read()
    m=re.search(r'pub const ONE[^=]*=\s*Self\(fiat::\w+\(\[([^\]]*)\]',tt,re.S)
    l=[int(x) for x in re.findall(r'\d+',m.group(1))]
    print('u32 ONE',fld, sum(x<<(32*i) for i,x in enumerate(l))==(1<<256)%mod)
# cofactors
print('G1 cofactor inv', (0x170b5d4430000000<<64)*ours[-0] if False else '')
