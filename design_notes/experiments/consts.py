import re,sys
from sympy import factorint, isprime
def limbs(l): return sum(x<<(64*i) for i,x in enumerate(l))
src=lambda f: open('/repo/src/'+f).read()
def arr(text,name):
    m=re.search(name+r'[^=]*=\s*\[([^\]]*)\]',text,re.S); return [int(x.replace('_','')) for x in re.findall(r'\d[\d_]*',m.group(1))]
def mont(text,name):
    m=re.search(name+r'[^=]*=\s*(?:Self|Fq|Fp|Fr)::from_montgomery_limbs\(\[([^\]]*)\]',text,re.S); return [int(x) for x in re.findall(r'\d+',m.group(1))]
for F,fn,nl in (('Fq','fq',4),('Fr','fr',4),('Fp','fp',6)):
    t=src(f'fields/{fn}.rs')
    p=limbs(arr(t,'MODULUS_LIMBS')); R=1<<(64*nl); Ri=pow(R,-1,p)
    print('==',F,hex(p), isprime(p))
    print(' half', limbs(arr(t,'MODULUS_MINUS_ONE_DIV_TWO_LIMBS'))==(p-1)//2)
    bits=int(re.search(r'MODULUS_BIT_SIZE: u32 = (0x[0-9a-f]+)',t).group(1),16); print(' bits',bits==p.bit_length())
    s=0;tt=p-1
    while tt%2==0: tt//=2;s+=1
    print(' trace',limbs(arr(t,'TRACE_LIMBS'))==tt, ' half trace',limbs(arr(t,'TRACE_MINUS_ONE_DIV_TWO_LIMBS'))==(tt-1)//2)
    ta=int(re.search(r'TWO_ADICITY: u32 = (0x[0-9a-f]+)',t).group(1),16); print(' two adicity',ta==s, s)
    g=limbs(mont(t,'MULTIPLICATIVE_GENERATOR'))*Ri%p; print(' gen',g, all(pow(g,(p-1)//l,p)!=1 for l in factorint(p-1)))
    w=limbs(mont(t,'TWO_ADIC_ROOT_OF_UNITY'))*Ri%p; print(' root', w==pow(g,tt,p), pow(w,1<<(s-1),p)==p-1)
    f2=limbs(mont(t,'FIELD_SIZE_POWER_OF_TWO'))*Ri%p; n8=(bits+7)//8; print(' fspt', f2==pow(2,8*n8,p))
    if 'QUADRATIC_NON_RESIDUE_TO_TRACE' in t:
        z=limbs(mont(t,'QUADRATIC_NON_RESIDUE_TO_TRACE'))*Ri%p; print(' qnrtt', z==pow(g,tt,p), z==w, pow(z,1<<(s-1),p)==p-1)
