import Mathlib.Tactic.LinearCombination
import Mathlib.Tactic.Ring
import Mathlib.Tactic.FieldSimp
import Mathlib.Algebra.Field.Basic
import Mathlib.Algebra.Group.Even
variable {K : Type*} [Field K]
theorem char_mul (d x1 y1 x2 y2 : K)
  (h1 : -x1^2 + y1^2 = 1 + d*x1^2*y1^2) (h2 : -x2^2 + y2^2 = 1 + d*x2^2*y2^2) :
  ((1 + d*(x1*x2*y1*y2))^2 - d*(x1*y2+y1*x2)^2) * (1 - d*x1^2) * (1 - d*x2^2)
    = (1 - d*(x1^2 + x2^2 + x1^2*x2^2))^2 := by
  linear_combination (-d^3*x1^2*x2^4*y2^2 + d^2*x1^2*x2^2*y2^2 + d^2*x2^4 - d*x2^2) * h1 + (d^2*x1^4*x2^2 + d^2*x1^4 + d^2*x1^2*x2^2 - d*x1^2) * h2

/-- Bernstein–Lange completeness for a = -1 = c². -/
theorem complete (c d x1 y1 x2 y2 : K) (hc : c^2 = -1) (hd : ¬ IsSquare d) (h2ne : (2:K) ≠ 0)
  (h1 : -x1^2 + y1^2 = 1 + d*x1^2*y1^2) (h2 : -x2^2 + y2^2 = 1 + d*x2^2*y2^2)
  (hee : (d*x1*x2*y1*y2)^2 = 1) : False := by
  have hx1 : x1 ≠ 0 := by rintro rfl; simp at hee
  have hy1 : y1 ≠ 0 := by rintro rfl; simp at hee
  have hy2 : y2 ≠ 0 := by rintro rfl; simp at hee
  set e := d*x1*x2*y1*y2 with he
  have key1 : (c*x1 + e*y1)^2 = d * (x1*y1*(c*x2 + y2))^2 := by
    linear_combination x1^2 * hc + y1^2 * hee + h1 - d*x1^2*y1^2*x2^2 * hc - d*x1^2*y1^2 * h2 - hee
  have key2 : (c*x1 - e*y1)^2 = d * (x1*y1*(c*x2 - y2))^2 := by
    linear_combination x1^2 * hc + y1^2 * hee + h1 - d*x1^2*y1^2*x2^2 * hc - d*x1^2*y1^2 * h2 - hee
  by_cases hA : c*x2 + y2 = 0
  · by_cases hB : c*x2 - y2 = 0
    · apply hy2
      have : (2:K) * y2 = 0 := by linear_combination hA - hB
      exact (mul_eq_zero.mp this).resolve_left h2ne
    · apply hd
      refine ⟨(c*x1 - e*y1) / (x1*y1*(c*x2 - y2)), ?_⟩
      have hne : x1*y1*(c*x2 - y2) ≠ 0 := mul_ne_zero (mul_ne_zero hx1 hy1) hB
      field_simp
      linear_combination -key2
  · apply hd
    refine ⟨(c*x1 + e*y1) / (x1*y1*(c*x2 + y2)), ?_⟩
    have hne : x1*y1*(c*x2 + y2) ≠ 0 := mul_ne_zero (mul_ne_zero hx1 hy1) hA
    field_simp
    linear_combination -key1
