import Mathlib.NumberTheory.LucasPrimality
import Mathlib.Algebra.BigOperators.Group.List.Basic
import Mathlib.Tactic.NormNum.Prime
import Mathlib.Tactic.Ring
import Mathlib.Tactic.GCongr
import Mathlib.Data.Nat.Size

/-- structural (fuel) square-and-multiply, kernel-reducible -/
def powModAux (m : ℕ) : ℕ → ℕ → ℕ → ℕ → ℕ
  | 0, _, _, acc => acc
  | fuel+1, a, e, acc =>
      if e = 0 then acc else
      powModAux m fuel (a * a % m) (e / 2) (if e % 2 = 1 then acc * a % m else acc)

def powMod (a e m : ℕ) : ℕ := powModAux m e (a % m) e (1 % m)

theorem powModAux_modEq (m : ℕ) : ∀ (fuel a e acc : ℕ), e < 2 ^ fuel →
    powModAux m fuel a e acc ≡ acc * a ^ e [MOD m] := by
  intro fuel
  induction fuel with
  | zero =>
    intro a e acc h
    have : e = 0 := by simpa using h
    subst this; simp [powModAux]; rfl
  | succ n ih =>
    intro a e acc h
    unfold powModAux
    split_ifs with h0 h1
    · subst h0; simp; rfl
    · refine (ih _ _ _ (by omega)).trans ?_
      have he : e = 2 * (e / 2) + 1 := by omega
      conv_rhs => rw [he, pow_succ, pow_mul, ← mul_assoc, mul_right_comm]
      have h2 : a * a % m ≡ a ^ 2 [MOD m] := by rw [sq]; exact Nat.mod_modEq _ _
      exact Nat.ModEq.mul (Nat.mod_modEq _ _) (h2.pow _)
    · refine (ih _ _ _ (by omega)).trans ?_
      have he : e = 2 * (e / 2) := by omega
      conv_rhs => rw [he, pow_mul]
      have h2 : a * a % m ≡ a ^ 2 [MOD m] := by rw [sq]; exact Nat.mod_modEq _ _
      exact Nat.ModEq.mul rfl (h2.pow _)

theorem powMod_eq (a e m : ℕ) : powMod a e m % m = a ^ e % m := by
  have := powModAux_modEq m e (a % m) e (1 % m) Nat.lt_two_pow_self
  unfold powMod
  refine this.trans ?_
  have h1 : (1 % m) ≡ 1 [MOD m] := Nat.mod_modEq _ _
  have h2 : (a % m) ^ e ≡ a ^ e [MOD m] := (Nat.mod_modEq _ _).pow _
  simpa using h1.mul h2

theorem zmod_pow_eq_one_of_powMod {p a e : ℕ} (hp : 1 < p) (h : powMod a e p = 1) :
    (a : ZMod p) ^ e = 1 := by
  have h0 := powMod_eq a e p
  rw [h, Nat.mod_eq_of_lt hp] at h0
  have h3 : ((a ^ e : ℕ) : ZMod p) = ((1 : ℕ) : ZMod p) := by
    rw [ZMod.natCast_eq_natCast_iff]
    show a ^ e % p = 1 % p
    rw [← h0, Nat.mod_eq_of_lt hp]
  simpa using h3

theorem zmod_pow_ne_one_of_powMod {p a e : ℕ} (hp : 1 < p) (h : powMod a e p % p ≠ 1) :
    (a : ZMod p) ^ e ≠ 1 := by
  intro hc
  apply h
  have h3 : ((a ^ e : ℕ) : ZMod p) = ((1 : ℕ) : ZMod p) := by simpa using hc
  rw [ZMod.natCast_eq_natCast_iff] at h3
  rw [powMod_eq]
  have : a ^ e % p = 1 % p := h3
  rw [this, Nat.mod_eq_of_lt hp]

/-- Pratt/Lucas certificate checker lemma. -/
theorem prime_of_lucas_cert (p a : ℕ) (fs : List ℕ) (es : List ℕ) (hp : 1 < p)
    (hfac : (List.zipWith (· ^ ·) fs es).prod = p - 1)
    (hlen : fs.length = es.length)
    (hprime : ∀ l ∈ fs, Nat.Prime l)
    (h1 : powMod a (p - 1) p = 1)
    (h2 : ∀ l ∈ fs, powMod a ((p - 1) / l) p % p ≠ 1) : Nat.Prime p := by
  apply lucas_primality p (a : ZMod p) (zmod_pow_eq_one_of_powMod hp h1)
  intro l hl hdvd
  have : l ∈ fs := by
    rw [← hfac] at hdvd
    rw [Prime.dvd_prod_iff hl.prime] at hdvd
    obtain ⟨x, hx, hlx⟩ := hdvd
    -- x = f^e for some (f,e)
    rw [List.mem_iff_getElem] at hx
    obtain ⟨i, hi, rfl⟩ := hx
    simp only [List.getElem_zipWith] at hlx
    have hi' : i < fs.length := by simp [List.length_zipWith] at hi; omega
    have := hl.prime.dvd_of_dvd_pow hlx
    have hf := hprime _ (List.getElem_mem hi')
    rw [(Nat.prime_dvd_prime_iff_eq hl hf).mp this]
    exact List.getElem_mem hi'
  exact zmod_pow_ne_one_of_powMod hp (h2 l this)

def q : ℕ := 8444461749428370424248824938781546531375899335154063827935233455917409239041


theorem prime_x : Nat.Prime 9586122913090633729 :=
  prime_of_lucas_cert _ 11 [2,3,7,13,499] [46,1,1,1,1] (by norm_num) (by decide +kernel) rfl
    (by intro l hl; simp at hl; rcases hl with rfl|rfl|rfl|rfl|rfl <;> norm_num)
    (by decide +kernel) (by decide +kernel)
theorem prime_3511 : Nat.Prime 3511 := by norm_num
theorem prime_126397 : Nat.Prime 126397 := by norm_num
theorem prime_1832756501 : Nat.Prime 1832756501 :=
  prime_of_lucas_cert _ 2 [2,5,29,126397] [2,3,1,1] (by norm_num) (by decide +kernel) rfl
    (by intro l hl; simp at hl; rcases hl with rfl|rfl|rfl|rfl <;> first | exact prime_126397 | norm_num)
    (by decide +kernel) (by decide +kernel)
theorem prime_49484425527001 : Nat.Prime 49484425527001 :=
  prime_of_lucas_cert _ 14 [2,3,5,1832756501] [3,3,3,1] (by norm_num) (by decide +kernel) rfl
    (by intro l hl; simp at hl; rcases hl with rfl|rfl|rfl|rfl <;> first | exact prime_1832756501 | norm_num)
    (by decide +kernel) (by decide +kernel)
theorem prime_y : Nat.Prime 958612291309063373 :=
  prime_of_lucas_cert _ 2 [2,29,167,49484425527001] [2,1,1,1] (by norm_num) (by decide +kernel) rfl
    (by intro l hl; simp at hl; rcases hl with rfl|rfl|rfl|rfl <;> first | exact prime_49484425527001 | norm_num)
    (by decide +kernel) (by decide +kernel)
theorem prime_q : Nat.Prime q :=
  prime_of_lucas_cert _ 22 [2,3,5,7,13,499,9586122913090633729,958612291309063373] [47,1,1,1,1,1,2,1]
    (by norm_num [q]) (by decide +kernel) rfl
    (by intro l hl; simp at hl; rcases hl with rfl|rfl|rfl|rfl|rfl|rfl|rfl|rfl <;> first | exact prime_x | exact prime_y | norm_num)
    (by decide +kernel) (by decide +kernel)

#print axioms prime_q
