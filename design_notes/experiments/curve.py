import random
q=8444461749428370424248824938781546531375899335154063827935233455917409239041
r=2111115437357092606062206234695386632838870926408408195193685246394721360383
d=3021; a=q-1
def inv(x): return pow(x,-1,q)
def add(P,Q):
    x1,y1=P;x2,y2=Q;m=d*x1*x2*y1*y2%q
    return ((x1*y2+y1*x2)*inv(1+m)%q,(y1*y2-a*x1*x2)*inv(1-m)%q)
def mul(k,P):
    R=(0,1)
    while k:
        if k&1:R=add(R,P)
        P=add(P,P);k>>=1
    return R
def leg(x): 
    x%=q
    return 0 if x==0 else (1 if pow(x,(q-1)//2,q)==1 else -1)
def sqrt(x):
    # tonelli
    x%=q
    if x==0: return 0
    assert leg(x)==1
    s=47;t=(q-1)>>s; z=pow(22,t,q); c=z; R=pow(x,(t+1)//2,q); tt=pow(x,t,q); m=s
    while tt!=1:
        i=0;t2=tt
        while t2!=1: t2=t2*t2%q;i+=1
        b=pow(c,1<<(m-i-1),q); R=R*b%q; c=b*b%q; tt=tt*c%q; m=i
    return R
def randpoint():
    while True:
        x=random.randrange(q)
        n=(1+x*x)%q; dd=(1-d*x*x)%q
        v=n*inv(dd)%q
        if leg(v)==1:
            y=sqrt(v); 
            if random.random()<.5:y=q-y
            return (x,y)
if __name__=="__main__":
    i=sqrt(q-1); T4=(i,0)
    print('T4 order4', mul(4,T4)==(0,1), mul(2,T4))
    print('chi1(T4)',leg(1+i*i),'chi2(T4)',leg(1-d*i*i))
    cnt={}
    for _ in range(40):
        P=randpoint()
        even = mul(2*r,P)==(0,1)
        k=(even,leg(1+P[0]**2),leg(1-d*P[0]**2))
        cnt[k]=cnt.get(k,0)+1
    print(cnt)
    P=randpoint(); print('order check', mul(4*r,P)==(0,1))
