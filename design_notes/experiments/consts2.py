import re,itertools
exec(open('consts.py').read().split("for F,fn,nl")[0])
tq=src('fields/fq.rs'); q=limbs(arr(tq,'MODULUS_LIMBS')); R=1<<256; Ri=pow(R,-1,q)
tr=src('fields/fr.rs'); r=limbs(arr(tr,'MODULUS_LIMBS')); Rir=pow(R,-1,r)
mc=src('min_curve/constants.rs'); ac=src('ark_curve/constants.rs'); ed=src('ark_curve/edwards.rs')
def m2(text,name,p=q,ri=Ri):
    m=re.search(name+r'[^=]*=\s*(?:Self|Fq|Fp|Fr)::from_montgomery_limbs\(\[([^\]]*)\]',text,re.S); return limbs([int(x) for x in re.findall(r'\d+',m.group(1))])*ri%p
zeta=m2(mc,'ZETA'); print('zeta',zeta, m2(ac,'ZETA')==zeta, 'nonsq',pow(zeta,(q-1)//2,q)==q-1)
t=(q-1)>>47
print('zeta^t == QNRTT', pow(zeta,t,q)==m2(tq,'QUADRATIC_NON_RESIDUE_TO_TRACE'), 'min ZETA_TO_TRACE', pow(zeta,t,q)==m2(mc,'ZETA_TO_TRACE'))
a=m2(mc,'COEFF_A'); d=m2(mc,'COEFF_D'); k=m2(mc,'COEFF_K'); print('a',a==q-1,'d',d,'k',k, k==(-2*d*pow(a,-1,q))%q)
ea=m2(ed,r'const COEFF_A'); edd=m2(ed,r'const COEFF_D'); print('ark a,d',ea==q-1,edd)
# montgomery coeffs
ms=re.findall(r'const COEFF_([AB]): Fq = Fq::from_montgomery_limbs\(\[([^\]]*)\]',ed,re.S)
for n,v in ms:
    print(n, limbs([int(x) for x in re.findall(r'\d+',v)])*Ri%q)
print('mont A expect', 2*(a+d)*pow(a-d,-1,q)%q, 'B expect',4*pow(a-d,-1,q)%q)
bx=m2(ac,'B_X');by=m2(ac,'B_Y');bt=m2(ac,'B_T'); print('on curve',(a*bx*bx+by*by-1-d*bx*bx*by*by)%q==0, 'T',bt==bx*by%q, m2(ac,'GENERATOR_X')==bx, m2(ac,'GENERATOR_Y')==by)
print('d nonsq', pow(d,(q-1)//2,q)==q-1, 'q%4',q%4)
# Fr restore attempts
def fix(name,mont=False):
    m=re.search(name+r'[^=]*=\s*(?:Self::from_montgomery_limbs\()?\[([^\]]*)\]',tr,re.S)
    return [x for x in re.findall(r'\d+',m.group(1))]
print(fix('TRACE_LIMBS'), arr(tr,'MODULUS_MINUS_ONE_DIV_TWO_LIMBS'))
for name in ['MULTIPLICATIVE_GENERATOR','TWO_ADIC_ROOT_OF_UNITY']:
    ls=fix(name); print(name,ls)
import sympy
print('r-1 half', (r-1)//2)
# ark Fr generator: try candidates: small gens
for g in range(2,40):
    if all(pow(g,(r-1)//l,r)!=1 for l in sympy.factorint(r-1)): print('smallest gen',g); break
