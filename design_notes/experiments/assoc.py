import sympy as sp, time
x1,y1,x2,y2,x3,y3,d=sp.symbols('x1 y1 x2 y2 x3 y3 d')
def parts(xa,ya,xb,yb):
    m=xa*xb*ya*yb
    return xa*yb+ya*xb, 1+d*m, ya*yb+xa*xb, 1-d*m
A,B,C,D=parts(x1,y1,x2,y2)
A2,B2,C2,D2=parts(x2,y2,x3,y3)
# x coordinate
NL=A*D*y3+C*B*x3; DL=B*D+d*A*C*x3*y3
NR=x1*C2*B2+y1*A2*D2; DR=B2*D2+d*x1*y1*A2*C2
num=sp.expand(NL*DR-NR*DL)
print('terms',len(num.as_ordered_terms()))
e=[ -xi**2+yi**2-1-d*xi**2*yi**2 for xi,yi in ((x1,y1),(x2,y2),(x3,y3))]
t=time.time()
G=[sp.Poly(ei,x1,y1,x2,y2,x3,y3,domain=sp.QQ.frac_field(d)) for ei in e]
P=sp.Poly(num,x1,y1,x2,y2,x3,y3,domain=sp.QQ.frac_field(d))
Q,r=sp.reduced(P,G,order='grevlex')
print('rem',r, time.time()-t)
print([len(qq.terms()) for qq in Q])
def lean(expr):
    s=sp.sstr(sp.expand(expr.as_expr()))
    return s.replace('**','^')
out=f"""import Mathlib.Tactic.LinearCombination
import Mathlib.Tactic.Ring
variable {{K : Type*}} [Field K]
theorem assoc_x_num (d x1 y1 x2 y2 x3 y3 : K)
  (h1 : -x1^2 + y1^2 = 1 + d*x1^2*y1^2) (h2 : -x2^2 + y2^2 = 1 + d*x2^2*y2^2) (h3 : -x3^2 + y3^2 = 1 + d*x3^2*y3^2) :
  ({lean(sp.Poly(NL,x1))}) * ({lean(sp.Poly(DR,x1))}) = ({lean(sp.Poly(NR,x1))}) * ({lean(sp.Poly(DL,x1))}) := by
  linear_combination ({lean(Q[0])}) * h1 + ({lean(Q[1])}) * h2 + ({lean(Q[2])}) * h3
"""
open('/var/tmp/scratch/exper/Exper/Assoc.lean','w').write(out)
