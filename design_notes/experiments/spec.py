import random
from curve import *
zeta=2841681278031794617739547238867782961338435681360110683443920362658525667816
def neg(x): return (x%q)&1
def absq(x): x%=q; return (q-x)%q if neg(x) else x
def srz(num,den):
    num%=q;den%=q
    if num==0: return True,0
    if den==0: return False,0
    x=num*inv(den)%q
    if leg(x)==1: return True,sqrt(x)
    return False,sqrt(zeta*x%q)
A=q-1;D=d
def decode(s, flip=False):
    if neg(s): return None
    ss=s*s%q;u1=(1-ss)%q;u2=(u1*u1-4*D*ss)%q
    ws,v=srz(1,u2*u1*u1%q)
    if flip: v=(q-v)%q
    if not ws: return None
    t2=2*s*u1%q
    if neg(t2*v%q): v=(q-v)%q
    x=t2*v*v*u2%q;y=(1+ss)*v*u1%q
    return (x,y)
def encode(X,Y,Z,T,flip=False):
    amd=(A-D)%q
    u1=(X+T)*(X-T)%q
    _,v=srz(1,u1*amd*X*X%q)
    if flip: v=(q-v)%q
    u2=absq(v*u1);u3=(u2*Z-T)%q
    return absq(amd*v*u3*X)
def xsqrt(x):
    if leg(x)==-1: raise ValueError
    s=sqrt(x); return absq(s)
def encodeSpec(x,y):
    if x==0 or y==0: return 0
    sr=xsqrt(1-A*x*x); altx=x*y*inv(sr)%q
    s=(1+sr)*inv(x)%q if neg(altx) else (1-sr)*inv(x)%q
    return absq(s)
def decodeSpec(s):
    if neg(s): return None
    if s==0: return (0,1)
    try: t=xsqrt(A*A*pow(s,4,q)+2*(A-2*D)*s*s+1)
    except ValueError: return None
    altx=2*s*inv(t)%q
    if neg(altx): t=(q-t)%q
    if (1+A*s*s)%q==0: return None
    return (2*s*inv(1+A*s*s)%q,(1-A*s*s)*inv(t)%q)
def fromJQ(s,t):
    if s==0: return (0,1)
    return (2*s*inv(1+A*s*s)%q,(1-A*s*s)*inv(t)%q)
def elligatorSpec(r0):
    r=zeta*r0*r0%q
    den=(D*r-(D-A))*((D-A)*r-D)%q
    if den==0: return (0,1)
    n1=(r+1)*(A-2*D)*inv(den)%q; n2=r*n1%q
    if leg(n1)>=0 and (leg(n1)==1 or n1==0):
        s=xsqrt(n1); t=(-(r-1)*(A-2*D)**2*inv(den)-1)%q
    else:
        s=(q-xsqrt(n2))%q; t=(r*(r-1)*(A-2*D)**2*inv(den)-1)%q
    return fromJQ(s,t)
def elligator(r0,flip=False):
    r=zeta*r0*r0%q
    den=(D*r-(D-A))*((D-A)*r-D)%q; num=(r+1)*(A-2*D)%q
    iss,isri=srz(1,num*den%q)
    if flip: isri=(q-isri)%q
    sgn,tw=(1,1) if iss else (q-1,r0)
    isri=isri*tw%q
    s=isri*num%q
    t=(-sgn*isri*s*(r-1)*(A-2*D)**2-1)%q
    if bool(neg(s))==iss: s=(q-s)%q
    E=2*s%q;F=(1+A*s*s)%q;G=(1-A*s*s)%q;H=t
    return (E*H%q,F*G%q,F*H%q,E*G%q) # X Y Z T
def aff(P):
    X,Y,Z,T=P; zi=inv(Z); return (X*zi%q,Y*zi%q)
def same(P,Q): return P==Q or P==((q-Q[0])%q,(q-Q[1])%q)
if __name__=="__main__":
    random.seed(1)
    # decode vs spec
    acc=0
    for i in range(300):
        s=random.randrange(q) if i>20 else i
        a_=decode(s);b_=decodeSpec(s)
        assert (a_ is None)==(b_ is None),s
        if a_ is not None:
            acc+=1
            assert same(a_,b_),(s,a_,b_)
            assert a_==b_ or s==0,(s)
            assert decode(s,True)==a_ or s==0
            x,y=a_
            assert leg(1-D*x*x)==1
            for lam in (1,random.randrange(1,q)):
              for sg in (1,q-1):
                X,Y,Z,T=(sg*x*lam%q,sg*y*lam%q,lam,x*y*lam%q)
                assert encode(X,Y,Z,T)==s==encode(X,Y,Z,T,True)==encodeSpec(sg*x%q,sg*y%q),(s,lam,sg)
    print('decode ok',acc)
    print('decode q-1',decode(q-1),decodeSpec(q-1))
    # identity encodings
    print(encode(0,1,1,0),encode(0,q-1,1,0),encode(0,5,5,0))
    # elligator
    zden=[]
    for i in range(300):
        r0=random.randrange(q) if i>20 else i
        P=elligator(r0); assert P[2]!=0
        assert same(aff(P),elligatorSpec(r0)),r0
        assert same(aff(elligator(r0,True)),aff(P))
        assert same(aff(elligator((q-r0)%q)),aff(P))
        x,y=aff(P); assert (A*x*x+y*y-1-D*x*x*y*y)%q==0 and leg(1-D*x*x)==1
    print('elligator ok')
    # den == 0 ?
    for rr in ((D-A)*inv(D)%q, D*inv(D-A)%q):
        print('r cand',leg(rr*inv(zeta)%q))
