import sympy as sp
x1,y1,x2,y2,d=sp.symbols('x1 y1 x2 y2 d')
m=x1*x2*y1*y2
x3n=x1*y2+y1*x2; x3d=1+d*m
S=1-d*(x1**2+x2**2+x1**2*x2**2)
# claim: ((x3d^2 - d x3n^2)) * (1-d x1^2)(1-d x2^2) = S^2   mod curve eqs
lhs=sp.expand((x3d**2-d*x3n**2)*(1-d*x1**2)*(1-d*x2**2)-S**2)
e=[ -xi**2+yi**2-1-d*xi**2*yi**2 for xi,yi in ((x1,y1),(x2,y2))]
Q,r=sp.reduced(lhs,e,x1,y1,x2,y2,d,order='grevlex')
print('rem',r,[len(sp.Poly(qq,x1,y1,x2,y2,d).terms()) for qq in Q])
# identity (1-d x^2)(1+d y^2) = 1+d
l2=sp.expand((1-d*x1**2)*(1+d*y1**2)-(1+d))
Q,r=sp.reduced(l2,[e[0]],x1,y1,d,order='grevlex'); print('rem2',r,Q)
# doubling: 1 - d x(2P)^2 is a square: x2P = 2xy/(1+d x^2y^2); claim (1+dx^2y^2)^2 - 4 d x^2 y^2 = (1 - d x^2 y^2)^2 trivially
print(sp.expand((1+d*x1**2*y1**2)**2-4*d*x1**2*y1**2-(1-d*x1**2*y1**2)**2))
