import sympy as sp
x1,y1,x2,y2,d=sp.symbols('x1 y1 x2 y2 d')
m=x1*x2*y1*y2
x3n=x1*y2+y1*x2; x3d=1+d*m
S=1-d*(x1**2+x2**2+x1**2*x2**2)
lhs=sp.expand((x3d**2-d*x3n**2)*(1-d*x1**2)*(1-d*x2**2)-S**2)
e=[ -xi**2+yi**2-1-d*xi**2*yi**2 for xi,yi in ((x1,y1),(x2,y2))]
Q,r=sp.reduced(lhs,e,x1,y1,x2,y2,d,order='grevlex')
L=lambda z: sp.sstr(sp.expand(z)).replace('**','^')
print(f"""import Mathlib.Tactic.LinearCombination
import Mathlib.Tactic.Ring
import Mathlib.Tactic.FieldSimp
import Mathlib.Algebra.Field.Basic
import Mathlib.Algebra.Group.Even
variable {{K : Type*}} [Field K]
theorem char_mul (d x1 y1 x2 y2 : K)
  (h1 : -x1^2 + y1^2 = 1 + d*x1^2*y1^2) (h2 : -x2^2 + y2^2 = 1 + d*x2^2*y2^2) :
  ((1 + d*(x1*x2*y1*y2))^2 - d*(x1*y2+y1*x2)^2) * (1 - d*x1^2) * (1 - d*x2^2)
    = (1 - d*(x1^2 + x2^2 + x1^2*x2^2))^2 := by
  linear_combination ({L(Q[0])}) * h1 + ({L(Q[1])}) * h2

/-- Bernstein–Lange completeness for a = -1 = c². -/
theorem complete (c d x1 y1 x2 y2 : K) (hc : c^2 = -1) (hd : ¬ IsSquare d)
  (h1 : -x1^2 + y1^2 = 1 + d*x1^2*y1^2) (h2 : -x2^2 + y2^2 = 1 + d*x2^2*y2^2)
  (e : K) (he : e = d*x1*x2*y1*y2) (hee : e^2 = 1) : False := by
  have hx1 : x1 ≠ 0 := by rintro rfl; simp [he] at hee
  have hy1 : y1 ≠ 0 := by rintro rfl; simp [he] at hee
  have hx2 : x2 ≠ 0 := by rintro rfl; simp [he] at hee
  have hy2 : y2 ≠ 0 := by rintro rfl; simp [he] at hee
  have key1 : (c*x1 + e*y1)^2 = d * (x1*y1*(c*x2 + y2))^2 := by
    subst he
    linear_combination (exp := 1) (-(d*x1^2*y1^2)) * h2 + h1 + (x1^2 + y1^2*0) * 0 + (1:K) * hee * 0 + (x1^2) * hc * 0
  sorry
""")
