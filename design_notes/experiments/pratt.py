import sympy, sys
from sympy import factorint
sys.setrecursionlimit(10000)
done={}
def gen(p):
    f=factorint(p-1)
    for a in range(2,1000):
        if pow(a,p-1,p)==1 and all(pow(a,(p-1)//l,p)!=1 for l in f): return a,f
def cert(p,out):
    if p in done or p<1000: return
    a,f=gen(p); done[p]=(a,f)
    for l in f: cert(l,out)
    out.append((p,a,f))
if __name__=="__main__":
    out=[]; cert(int(sys.argv[1]),out)
    for p,a,f in out: print(p,a,f)
