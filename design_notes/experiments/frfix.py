import itertools
exec(open('consts.py').read().split("for F,fn,nl")[0])
tr=src('fields/fr.rs'); r=limbs(arr(tr,'MODULUS_LIMBS')); R=1<<256; Ri=pow(R,-1,r)
print('mont(-1) limbs', [((r-R%r)>>(64*i))&(2**64-1) for i in range(4)])
ls=['11289572479485143824','11383437349941080925','2288212753973340071','82014974407880291']
pos=[(i,j) for i,l in enumerate(ls) for j,c in enumerate(l) if c=='4']
print(len(pos))
for mask in range(1<<len(pos)):
    cur=[list(l) for l in ls]
    for b,(i,j) in enumerate(pos):
        if mask>>b&1: cur[i][j]='6'
    v=[int(''.join(l)) for l in cur]
    if any(x>=2**64 for x in v): continue
    g=limbs(v)*Ri%r
    if g<1000: print(g,v)
